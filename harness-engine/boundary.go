package main

// Streams aimed at the 64 KiB output boundary of the decoder (len(output) == written inside a
// multi-symbol table entry: overflow literals, end-of-block or a length as the last symbol of a
// pair/triple, matches cut by the boundary) and at codes without any short entry.

func storedBlock(w *bitW, final bool, data []byte) {
	if final {
		w.bits(1, 1)
	} else {
		w.bits(0, 1)
	}
	w.bits(0, 2)
	w.align()
	w.bits(uint32(len(data)), 16)
	w.bits(uint32(^uint16(len(data))), 16)
	for _, b := range data {
		w.bits(uint32(b), 8)
	}
}

// smallDynBlock writes one dynamic block over a tiny alphabet and appends what it decodes to out.
// shift > 0 lengthens every code by that many bits (an incomplete code without short entries
// when shift is large).
func smallDynBlock(r *Rng, w *bitW, out *[]byte, final bool, ntok int, litShift, distShift int) {
	tiny := litShift >= 10
	nl := r.Range(1, 4)
	if tiny {
		nl = r.Range(1, 2)
	}
	lits := make([]int, nl)
	for i := range lits {
		lits[i] = r.Intn(256)
	}
	nlen := r.Range(0, 3)
	if tiny && nlen > 2 {
		nlen = 2
	}
	lsyms := make([]int, nlen)
	for i := range lsyms {
		lsyms[i] = 257 + r.Pick([]int{0, 0, 1, 2, 5, 8, 12, 20, 27, 28, r.Intn(29)})
	}
	used := make([]bool, 286)
	for _, l := range lits {
		used[l] = true
	}
	for _, l := range lsyms {
		used[l] = true
	}
	used[256] = true
	maxLen := r.Pick([]int{4, 4, 5, 6, 9})
	extra := r.Intn(2)
	if tiny {
		maxLen = 15 - litShift
		if maxLen < 3 {
			panic("litShift")
		}
		if nl+nlen+1+extra > 1<<uint(maxLen) {
			extra = 0
		}
	}
	litLens, _, _ := codeFor(r, 286, used, maxLen, r.Intn(4), extra, false)
	for i := range litLens {
		if litLens[i] != 0 {
			litLens[i] += litShift
		}
	}
	nd := r.Range(1, 3)
	dused := make([]bool, 30)
	dsyms := make([]int, nd)
	for i := range dsyms {
		dsyms[i] = r.Pick([]int{0, 0, 1, 2, 3, 4, 9, 15, 29, r.Intn(30)})
		dused[dsyms[i]] = true
	}
	distLens, _, _ := codeFor(r, 30, dused, 4, r.Intn(4), 0, false)
	if nlen == 0 && r.Bool() {
		distLens = make([]int, 30) // no distance code at all
	}
	for i := range distLens {
		if distLens[i] != 0 {
			distLens[i] += distShift
		}
	}
	var toks []tok
	style := r.Intn(3) // 0 random, 1 literal/match alternating, 2 two literals then a match
	for i := 0; i < ntok; i++ {
		wantMatch := r.Intn(3) == 0
		if style == 1 {
			wantMatch = i%2 == 1
		} else if style == 2 {
			wantMatch = i%3 == 2
		}
		if nlen > 0 && len(*out) > 0 && wantMatch {
			ls := lsyms[r.Intn(nlen)] - 257
			ln := lenBase[ls]
			if lenExtra[ls] > 0 {
				ln += r.Intn(1 << lenExtra[ls])
			}
			ds := -1
			for tries := 0; tries < 10; tries++ {
				c := dsyms[r.Intn(nd)]
				if distLens[c] != 0 && distBase[c] <= len(*out) {
					ds = c
					break
				}
			}
			if ds >= 0 {
				d := distBase[ds]
				if distExtra[ds] > 0 {
					d += r.Intn(1 << distExtra[ds])
				}
				if d > len(*out) {
					d = distBase[ds]
				}
				if d > 32768 {
					d = 32768
				}
				// keep the symbol of d equal to ds
				if s, _, _ := distSym(d); s == ds {
					sy, _, _ := lenSym(ln, false)
					alt := ln == 258 && sy != lsyms[0] && lsyms[r.Intn(nlen)] == 284
					if ln == 258 && ls == 27 {
						alt = true
					}
					toks = append(toks, tok{Len: ln, Dist: d, Alt: alt})
					for k := 0; k < ln; k++ {
						*out = append(*out, (*out)[len(*out)-d])
					}
					continue
				}
			}
		}
		l := lits[r.Intn(nl)]
		toks = append(toks, tok{Lit: byte(l)})
		*out = append(*out, byte(l))
	}
	dynHeader(r, w, final, litLens, distLens, r.Intn(3), r.Intn(4), "")
	writeTokens(w, toks, litLens, distLens, true)
}

func synthBoundary(r *Rng) []byte {
	w := &bitW{}
	var out []byte
	// how far before the boundary the interesting part starts
	back := r.Pick([]int{0, 0, 0, 0, 1, 1, 1, 2, 2, 3, r.Intn(8), r.Intn(40), r.Intn(300), r.Intn(700)})
	p := 65536 - back
	if r.Intn(8) == 0 {
		p += 65536 // second time round, after one slide of the window
		if r.Intn(2) == 0 {
			p -= 32768
		}
	}
	alpha := r.Range(1, 5)
	for len(out) < p {
		n := p - len(out)
		if n > 65535 {
			n = r.Range(20000, 65535)
		}
		blk := make([]byte, n)
		for i := range blk {
			blk[i] = byte('a' + r.Intn(alpha))
		}
		storedBlock(w, false, blk)
		out = append(out, blk...)
	}
	nb := r.Range(1, 6)
	direct := r.Intn(4) == 0 // the final block itself meets the boundary
	if direct {
		nb = 0
	}
	for b := 0; b < nb; b++ {
		smallDynBlock(r, w, &out, false, r.Pick([]int{0, 1, 1, 2, 2, 3, 4, 5, 9, 30, 200}), 0, 0)
	}
	k := r.Intn(3)
	if direct {
		k = 2
	}
	switch k {
	case 0:
		storedBlock(w, true, nil)
	case 1:
		w.bits(1, 1)
		w.bits(1, 2)
		w.bits(0, 7) // fixed block: end-of-block only
	default:
		smallDynBlock(r, w, &out, true, r.Intn(5), 0, 0)
		if direct || r.Bool() {
			// enough bytes behind the final block for the table builder to use pairs and triples
			return append(w.bytes(), r.Bytes(r.Range(4000, 9000))...)
		}
	}
	return w.bytes()
}

// clcAllZero: a dynamic header whose code-length code has no symbol at all.
func clcAllZero(r *Rng) []byte {
	w := &bitW{}
	w.bits(uint32(r.Intn(2)), 1)
	w.bits(2, 2)
	w.bits(uint32(r.Intn(30)), 5)
	w.bits(uint32(r.Intn(30)), 5)
	h := r.Intn(16)
	w.bits(uint32(h), 4)
	for i := 0; i < h+4; i++ {
		w.bits(0, 3)
	}
	return append(w.bytes(), r.Bytes(r.Intn(20))...)
}

// synthLongOnly: dynamic blocks whose literal/length codes are all longer than 12 bits and/or
// whose distance codes are all longer than 10 bits (incomplete codes).
func synthLongOnly(r *Rng) []byte {
	w := &bitW{}
	var out []byte
	if r.Bool() {
		blk := r.Bytes(r.Range(1, 300))
		storedBlock(w, false, blk)
		out = append(out, blk...)
	}
	nb := r.Range(1, 3)
	for b := 0; b < nb; b++ {
		// literal/length codes: lengths 1..3 shifted by 12 (all longer than 12 bits) or by less;
		// distance codes: lengths 1..4 shifted by 10..11 (all longer than 10 bits)
		ls, ds := 0, 0
		switch r.Intn(3) {
		case 0:
			ls = r.Pick([]int{10, 11, 12, 12, 12})
		case 1:
			ds = r.Pick([]int{7, 9, 10, 11})
		default:
			ls, ds = r.Pick([]int{10, 11, 12, 12}), r.Pick([]int{7, 9, 10, 11})
		}
		smallDynBlock(r, w, &out, b == nb-1, r.Range(0, 40), ls, ds)
	}
	return w.bytes()
}

// synthOvfRoll: the output window is full (or one byte short) exactly where a pair/triple entry
// "literal(s), length" starts, and the distance code behind it arrives in a later delivery: the
// decoder first parks the literals as overflow literals, then has to roll the whole entry back.
// Returns the stream and the byte offset where the dynamic block starts.
func synthOvfRoll(r *Rng) ([]byte, int) {
	w := &bitW{}
	var out []byte
	back := r.Intn(2)
	p := 65536 - back
	for len(out) < p {
		n := p - len(out)
		if n > 65535 {
			n = 65535 - r.Intn(3)
		}
		blk := make([]byte, n)
		for i := range blk {
			blk[i] = byte('a' + r.Intn(3))
		}
		storedBlock(w, false, blk)
		out = append(out, blk...)
	}
	off := len(w.bytes())
	litLens := make([]int, 286)
	a, b := r.Intn(256), r.Intn(256)
	for b == a {
		b = r.Intn(256)
	}
	ls := 257 + r.Pick([]int{0, 1, 7, 8, 12, 20, 27, 28})
	lens := [][4]int{{1, 2, 3, 3}, {2, 2, 2, 2}, {1, 3, 3, 2}, {3, 1, 3, 2}, {2, 1, 3, 3}}[r.Intn(5)]
	litLens[a], litLens[ls], litLens[b], litLens[256] = lens[0], lens[1], lens[2], lens[3]
	distLens := make([]int, 30)
	ds := r.Pick([]int{0, 3, 10, 20, 25, 29})
	ds2 := (ds + 1 + r.Intn(28)) % 30
	distLens[ds], distLens[ds2] = 1, 1
	if r.Intn(3) == 0 {
		distLens[ds], distLens[ds2] = 11+r.Intn(5), 1 // a long distance code
	}
	mk := func() tok {
		l := ls - 257
		ln := lenBase[l]
		if lenExtra[l] > 0 {
			ln += r.Intn(1 << lenExtra[l])
		}
		d := distBase[ds]
		if distExtra[ds] > 0 {
			d += r.Intn(1 << distExtra[ds])
		}
		return tok{Len: ln, Dist: d, Alt: ln == 258 && l == 27}
	}
	var toks []tok
	switch {
	case back == 1:
		toks = []tok{{Lit: byte(a)}, {Lit: byte(r.Pick([]int{a, b}))}, mk()}
	case r.Bool():
		toks = []tok{{Lit: byte(a)}, mk()}
	default:
		toks = []tok{{Lit: byte(r.Pick([]int{a, b}))}, {Lit: byte(a)}, mk()}
	}
	for i := r.Intn(4); i > 0; i-- {
		if r.Bool() {
			toks = append(toks, tok{Lit: byte(a)})
		} else {
			toks = append(toks, mk())
		}
	}
	dynHeader(r, w, false, litLens, distLens, r.Intn(3), r.Intn(4), "")
	writeTokens(w, toks, litLens, distLens, true)
	storedBlock(w, true, nil)
	return w.bytes(), off
}

// synthManyLong: dynamic blocks with many long codes (literal/length codes of 13..15 bits,
// distance codes of 11..15 bits), complete or not: the long-code sub-tables get crowded.
func synthManyLong(r *Rng) []byte {
	w := &bitW{}
	var out []byte
	if r.Bool() {
		blk := r.Bytes(r.Range(1, 40000))
		storedBlock(w, false, blk)
		out = append(out, blk...)
	}
	fit := func(lens []int) {
		// lengthen codes until the Kraft sum is at most 1
		for {
			sum := 0
			for _, l := range lens {
				if l > 0 {
					sum += 1 << uint(15-l)
				}
			}
			if sum <= 1<<15 {
				return
			}
			for tries := 0; ; tries++ {
				i := r.Intn(len(lens))
				if lens[i] > 0 && lens[i] < 15 {
					lens[i]++
					break
				}
				if tries > 10000 {
					panic("fit")
				}
			}
		}
	}
	nb := r.Range(1, 3)
	for b := 0; b < nb; b++ {
		litLens := make([]int, 286)
		nshort := r.Intn(6)
		nlong := r.Pick([]int{0, 3, 20, 100, 250})
		for i := 0; i < nshort; i++ {
			litLens[r.Intn(286)] = r.Range(1, 8)
		}
		for i := 0; i < nlong; i++ {
			litLens[r.Intn(286)] = r.Range(9, 15)
		}
		if litLens[256] == 0 {
			litLens[256] = r.Range(1, 15)
		}
		fit(litLens)
		distLens := make([]int, 30)
		switch r.Intn(4) {
		case 0: // the known crowded shape: one code of 11 bits, the others of 15
			for i := range distLens {
				distLens[i] = 15
			}
			distLens[r.Intn(30)] = 11
		case 1:
			for i := range distLens {
				distLens[i] = r.Range(11, 15)
			}
		case 2:
			for i := range distLens {
				if r.Bool() {
					distLens[i] = r.Range(10, 15)
				}
			}
			distLens[r.Intn(30)] = r.Range(1, 3)
		default:
			for i := range distLens {
				distLens[i] = r.Pick([]int{0, 2, 5, 9, 10, 11, 12, 13, 14, 15})
			}
		}
		fit(distLens)
		var lits, lsyms, dsyms []int
		for s, l := range litLens {
			if l > 0 && s < 256 {
				lits = append(lits, s)
			}
			if l > 0 && s > 256 {
				lsyms = append(lsyms, s)
			}
		}
		for s, l := range distLens {
			if l > 0 {
				dsyms = append(dsyms, s)
			}
		}
		var toks []tok
		for i := r.Range(0, 60); i > 0; i-- {
			if len(lsyms) > 0 && len(dsyms) > 0 && len(out) > 0 && r.Intn(3) == 0 {
				ls := lsyms[r.Intn(len(lsyms))] - 257
				ds := dsyms[r.Intn(len(dsyms))]
				ln := lenBase[ls]
				if lenExtra[ls] > 0 {
					ln += r.Intn(1 << lenExtra[ls])
				}
				d := distBase[ds]
				if distExtra[ds] > 0 {
					d += r.Intn(1 << distExtra[ds])
				}
				if d > len(out) || d > 32768 {
					continue
				}
				toks = append(toks, tok{Len: ln, Dist: d, Alt: ln == 258 && ls == 27})
				for k := 0; k < ln; k++ {
					out = append(out, out[len(out)-d])
				}
			} else if len(lits) > 0 {
				l := lits[r.Intn(len(lits))]
				toks = append(toks, tok{Lit: byte(l)})
				out = append(out, byte(l))
			}
		}
		dynHeader(r, w, b == nb-1, litLens, distLens, r.Intn(3), r.Intn(4), "")
		writeTokens(w, toks, litLens, distLens, true)
	}
	return w.bytes()
}
