package main

import (
	"bytes"
	"fmt"
)

type RCase struct {
	Prop   string     `json:"property"`
	ID     string     `json:"id"`
	API    string     `json:"api"`
	Stream StreamSpec `json:"stream"`
	Cut    int        `json:"cut"` // -1: whole stream
	Suffix string     `json:"suffix,omitempty"`
	Dict   *DataSpec  `json:"dict,omitempty"`
	Src    SrcSpec    `json:"src"`
	Src2   *SrcSpec   `json:"src2,omitempty"`
	Ctor   string     `json:"ctor"`
	Prior  *PriorSpec `json:"prior,omitempty"`
	Reads  string     `json:"reads"`
	Reads2 string     `json:"reads2,omitempty"`
	RSeed  uint64     `json:"rseed"`
	Expect int        `json:"expect,omitempty"` // C11: data bytes encoded before the gate
}

func (c *RCase) knownClass() string {
	if c.Stream.W != nil {
		return c.Stream.W.knownClass()
	}
	return ""
}

func (c *RCase) sample() string {
	s := fmt.Sprintf("%s stream=%s cut=%d suffix=%d src=%s ctor=%s reads=%s", c.API, c.Stream.describe(), c.Cut, len(c.Suffix)/2, c.Src, c.Ctor, c.Reads)
	if c.Src2 != nil {
		s += " vs src=" + c.Src2.String() + " reads=" + c.Reads2
	}
	return s
}

func (s StreamSpec) describe() string {
	switch s.Kind {
	case "synth":
		return fmt.Sprintf("synth(seed=%d,blocks=%d,size=%d,fault=%q@%d,incomplete=%v,kinds=%q)%s", s.Synth.Seed%100000, s.Synth.Blocks, s.Synth.Size, s.Synth.Fault, s.Synth.FaultB, s.Synth.Incomp, s.Synth.Kinds, mutDesc(s))
	case "fast", "std":
		return fmt.Sprintf("%s-writer(%s,%s,ops=%d)%s", s.Kind, s.W.Set, s.W.Datas[0], len(s.W.Ops), mutDesc(s))
	case "concat":
		x := "concat("
		for _, p := range s.Parts {
			x += p.describe() + ","
		}
		return x + ")"
	}
	return "hex(" + trunc(s.Hex, 40) + ")" + mutDesc(s)
}
func mutDesc(s StreamSpec) string {
	if len(s.Flip) > 0 || len(s.Subst) > 0 {
		return fmt.Sprintf("~flip%v~subst%v", s.Flip, s.Subst)
	}
	return ""
}

func (c *RCase) input() (stream, data []byte, strict bool, shape string, dict []byte) {
	stream, data, strict, shape = c.Stream.Materialize()
	if c.Cut >= 0 && c.Cut < len(stream) {
		stream = stream[:c.Cut]
	}
	if c.Suffix != "" {
		stream = append(append([]byte(nil), stream...), unhex(c.Suffix)...)
	}
	if c.Dict != nil {
		dict = c.Dict.Generate()
	}
	return
}

// ---------- stream generators ----------

func genValidStream(r *Rng, api string) StreamSpec {
	if api != "flate" {
		return genWriterStream(r, api, r.Bool())
	}
	switch r.Intn(10) {
	case 0, 1, 2:
		return genWriterStream(r, api, r.Bool())
	default:
		sp := &SynthSpec{Seed: r.U64(), Blocks: 1 + r.Intn(5), Size: r.Pick([]int{0, 1, 5, 40, 300, 2000, 9000, 40000, 70000})}
		switch r.Intn(12) {
		case 0:
			sp.Blocks = 500 + r.Intn(2500) // thousands of tiny blocks
			sp.Size = r.Intn(6)
		case 1:
			sp.Kinds = "s"
			sp.Size = 65535
			sp.Blocks = 1 + r.Intn(3)
		case 2:
			sp.Kinds = "d"
		case 3:
			sp.Kinds = "sd"
			sp.Blocks = 20
			sp.Size = 7
		}
		return StreamSpec{Kind: "synth", Synth: sp}
	}
}

func genWriterStream(r *Rng, api string, std bool) StreamSpec {
	s := Setting{API: api, Level: r.Range(-2, 9)}
	if !std && api == "flate" && r.Intn(3) == 0 {
		s.Win4K = true
	}
	n := pickSize(r, s, r.Intn(6) == 0)
	w := &WCase{Set: s, Datas: []DataSpec{pickData(r, Setting{Win4K: true}, n)}}
	w.Ops = append(partition(r, n, 0, s, r.Intn(3) == 0), Op{K: "c"})
	k := "fast"
	if std {
		k = "std"
	}
	return StreamSpec{Kind: k, W: w}
}

func genMalformed(r *Rng) StreamSpec {
	switch r.Intn(12) {
	case 11:
		// an unassigned long code whose table slot was filled by the previous block's table
		return StreamSpec{Kind: "synth", Synth: &SynthSpec{Seed: r.U64(), Blocks: 2, Kinds: "H", Size: 0}}
	case 10:
		return StreamSpec{Kind: "synth", Synth: &SynthSpec{Seed: r.U64(), Blocks: 2, Kinds: "M"}}
	case 0:
		return StreamSpec{Kind: "hex", Hex: hexs(r.Bytes(r.Pick([]int{0, 1, 2, 3, 5, 9, 30, 200, 5000})))}
	case 1, 2, 3:
		s := genValidStream(r, "flate")
		if s.Kind == "synth" && s.Synth.Blocks > 50 {
			s.Synth.Blocks = 5
		}
		for k := 1 + r.Intn(3); k > 0; k-- {
			if r.Intn(3) == 0 {
				s.Subst = append(s.Subst, r.Intn(1<<20), r.Intn(256))
			} else {
				s.Flip = append(s.Flip, r.Intn(1<<22))
			}
		}
		return s
	default:
		sp := &SynthSpec{Seed: r.U64(), Blocks: 1 + r.Intn(4), Size: r.Pick([]int{0, 3, 40, 300, 3000, 20000}), Fault: faultKinds[r.Intn(len(faultKinds))]}
		sp.FaultB = r.Intn(sp.Blocks)
		if r.Intn(3) == 0 {
			sp.Incomp = true
		}
		return StreamSpec{Kind: "synth", Synth: sp}
	}
}

var bufSizes = []int{16, 17, 31, 64, 300, 4096, 5000, 65536}
var chunkStyles = []string{"all", "one", "rand", "k2", "k7", "k4096", "k4097"}
var readStyles = []string{"big", "one", "rand", "k2", "k3", "k257", "k32768", "k65537"}

func pickSrc(r *Rng) SrcSpec {
	return SrcSpec{Kind: "bufio", Buf: r.Pick(bufSizes), Chunk: chunkStyles[r.Intn(len(chunkStyles))], Seed: r.U64(), Term: r.PickS([]string{"eof", "eof", "eofdata"})}
}

// ---------- C02 ----------

func checkC02(rep *Report, pool *DriverPool, c *RCase) {
	stream, data, strict, shape, dict := c.input()
	so, sk, _ := stdInflate(dict, stream)
	rep.Eval(fmt.Sprintf("%s|%s|%d", shape, c.Reads, len(stream)), c.sample())
	rep.Count("shape:" + trunc(shapeClass(shape), 30))
	rep.Count(sizeBucket(len(data)))
	if sk != "EOF" {
		if strict {
			rep.Note(fmt.Sprintf("generator claimed a strict stream that compress/flate rejects (%s): %s", sk, c.sample()))
		}
		rep.Count("not-accepted-by-stdlib")
		return
	}
	rep.Count("accepted-by-stdlib")
	o := RunR("flate", false, stream, nil, c.Src, c.Ctor, c.Prior, c.Reads, c.RSeed, 0)
	rep.DigestR(c.ID, &o)
	if o.Panic != "" || o.Hang {
		rep.Violate("panic-or-hang", "", fmt.Sprintf("panic=%q hang=%v", o.Panic, o.Hang), c)
		return
	}
	compareReaderModel(rep, pool, c, nil, stream, false, &o, true, -1, false)
	if engineApplies("flate", c.Ctor, c.Src, nil) {
		compareEngine(rep, pool, c, stream, c.Src, &o)
	}
	if o.Err != "EOF" || !bytes.Equal(o.Bytes, so) {
		rep.Violate("differs-from-stdlib", "", fmt.Sprintf("compress/flate: %d bytes, EOF; fastgo: %d bytes, %s (first difference at %d)", len(so), len(o.Bytes), o.Err, firstDiff(o.Bytes, so)), c)
	}
}

func shapeClass(s string) string {
	// compress long block strings: SSSSDDF -> S4D2F1
	out := ""
	for i := 0; i < len(s); {
		j := i
		for j < len(s) && s[j] == s[i] {
			j++
		}
		if j-i > 3 {
			out += fmt.Sprintf("%c*", s[i])
		} else {
			out += s[i:j]
		}
		i = j
	}
	return out
}

// ---------- C03 ----------

func checkC03(rep *Report, pool *DriverPool, c *RCase, knownValid bool) {
	stream, _, _, shape, _ := c.input()
	o := RunR("flate", false, stream, nil, c.Src, c.Ctor, c.Prior, c.Reads, c.RSeed, 0)
	rep.Eval(fmt.Sprintf("%s|%d|%s|%s|%d", shape, len(stream), c.Ctor, c.Reads, c.Cut), c.sample())
	rep.Count("ctor:" + c.Ctor)
	rep.DigestR(c.ID, &o)
	if o.Panic != "" {
		rep.Violate("panic", "", o.Panic, c)
		return
	}
	if o.Hang {
		rep.Violate("hang", "", "Read did not finish", c)
		return
	}
	if engineApplies("flate", c.Ctor, c.Src, nil) {
		compareEngine(rep, pool, c, stream, c.Src, &o)
	}
	so, sk, _ := stdInflate(nil, stream)
	rep.Count("std:" + sk)
	rep.Count("fastgo:" + o.Err)
	if sk == "EOF" && (o.Err != "EOF" || !bytes.Equal(o.Bytes, so)) {
		rep.Violate("rejects-valid-stream", "", fmt.Sprintf("compress/flate accepts (%d bytes) but fastgo returns %d bytes, %s", len(so), len(o.Bytes), o.Err), c)
		return
	}
	switch o.Err {
	case "EOF", "UEOF", "CORRUPT":
	default:
		rep.Violate("unexpected-error-kind", "", "final error "+o.Err, c)
	}
	for _, a := range o.After {
		if a != "0/"+o.Err {
			rep.Violate("error-not-sticky", "", fmt.Sprintf("after %s, further Reads returned %v", o.Err, o.After), c)
			break
		}
	}
	if pool == nil {
		return
	}
	sr, err := pool.Inflate(nil, stream)
	if err != nil {
		rep.Note("driver error: " + err.Error())
		return
	}
	rep.Count("spec:" + sr.Status)
	if sk == "EOF" && (sr.Status != "done" || !bytes.Equal(sr.Out, so)) {
		rep.Violate("spec-vs-stdlib", "", fmt.Sprintf("compress/flate accepts (%d bytes) but the reference inflater says %s (%d bytes): the specification is wrong", len(so), sr.Status, len(sr.Out)), c)
		return
	}
	if o.Err == "EOF" && (sr.Status != "done" || !bytes.Equal(o.Bytes, sr.Out)) {
		rep.Violate("accepts-malformed", "", fmt.Sprintf("fastgo returned %d bytes and io.EOF; the reference inflater says %s with %d bytes (first difference at %d)", len(o.Bytes), sr.Status, len(sr.Out), firstDiff(o.Bytes, sr.Out)), c)
		return
	}
	if !isPrefix(o.Bytes, sr.Out) {
		rep.Violate("fabricated-bytes", "", fmt.Sprintf("fastgo handed out %d bytes before %s; they are not a prefix of the %d bytes the reference inflater produces (first difference at %d)", len(o.Bytes), o.Err, len(sr.Out), firstDiff(o.Bytes, sr.Out)), c)
		return
	}
	if sr.Status == "done" && o.Err != "EOF" && sk != "EOF" {
		// permissive-valid (incomplete codes) but rejected: allowed (between the two bounds)
		rep.Count("between-bounds")
	}
	if knownValid && c.Cut >= 0 && sr.Status == "need" && o.Err != "UEOF" {
		rep.Violate("truncated-not-unexpected-eof", "", fmt.Sprintf("a valid stream cut at byte %d ended in %s", c.Cut, o.Err), c)
	}
	if sr.Status == "need" && sk == "UEOF" && o.Err == "CORRUPT" && knownValid {
		rep.Violate("truncated-reported-corrupt", "", "a prefix of a valid stream was reported as corrupt", c)
	}
}

// ---------- C04 ----------

func checkC04(rep *Report, pool *DriverPool, c *RCase) {
	stream, _, _, shape, _ := c.input()
	base := RunR("flate", false, stream, nil, SrcSpec{Kind: "bufio", Buf: 1 << 20, Chunk: "all", Term: "eof"}, "new", nil, "big", 0, 0)
	o := RunR("flate", false, stream, nil, c.Src, c.Ctor, nil, c.Reads, c.RSeed, 0)
	rep.Eval(fmt.Sprintf("%s|%d|%s|%s|%d", shape, len(stream), c.Src, c.Reads, c.Cut), c.sample())
	rep.Count("chunk:" + c.Src.Chunk)
	rep.Count(fmt.Sprintf("buf:%d", c.Src.Buf))
	rep.Count("reads:" + c.Reads)
	rep.Count("base:" + base.Err)
	rep.DigestR(c.ID, &o, o.Bytes, []byte(o.Err))
	if o.Panic != "" || o.Hang || base.Panic != "" || base.Hang {
		rep.Violate("panic-or-hang", "", fmt.Sprintf("panic=%q/%q hang=%v/%v", o.Panic, base.Panic, o.Hang, base.Hang), c)
		return
	}
	if engineApplies("flate", c.Ctor, c.Src, nil) {
		compareEngine(rep, pool, c, stream, c.Src, &o)
	}
	if c.Src.Term == "eof" || c.Src.Term == "eofdata" {
		_, sk, _ := stdInflate(nil, stream)
		compareReaderModel(rep, pool, c, nil, stream, false, &o, sk == "EOF" || c.Cut >= 0, -1, c.Cut >= 0)
	}
	if o.Err != base.Err || !bytes.Equal(o.Bytes, base.Bytes) {
		class := ""
		if c.Cut >= 0 && o.Err == "UEOF" && base.Err == "UEOF" && (isPrefix(o.Bytes, base.Bytes) || isPrefix(base.Bytes, o.Bytes)) && absInt(len(o.Bytes)-len(base.Bytes)) <= 2 {
			class = "F-C04-truncated-tail-length"
		}
		rep.Violate("schedule-dependent", class, fmt.Sprintf("all-at-once: %d bytes, %s; this schedule: %d bytes, %s (first difference at %d)", len(base.Bytes), base.Err, len(o.Bytes), o.Err, firstDiff(o.Bytes, base.Bytes)), c)
	}
}

func absInt(x int) int {
	if x < 0 {
		return -x
	}
	return x
}

// ---------- C05 ----------

func checkC05(rep *Report, pool *DriverPool, c *RCase) {
	stream, data, _, shape, dict := c.input()
	suffix := unhex(c.Suffix)
	api := c.API
	if api == "gzip" {
		api = "gzip1" // one member; what follows is not gzip data
	}
	o := RunR(api, false, stream, dict, c.Src, c.Ctor, nil, c.Reads, c.RSeed, 0)
	rep.Eval(fmt.Sprintf("%s|%s|%d|%s|%s|%d|%d", c.API, shape, len(stream), c.Src.Kind, c.Ctor, c.Src.Buf, len(suffix)), c.sample())
	rep.Count("src:" + c.Src.Kind)
	rep.Count("api:" + c.API)
	rep.DigestR(c.ID, &o)
	if o.Panic != "" || o.Hang {
		rep.Violate("panic-or-hang", "", o.Panic, c)
		return
	}
	if o.CtorErr != "" || o.Err != "EOF" || !bytes.Equal(o.Bytes, data) {
		rep.Violate("valid-stream-not-decoded", "", fmt.Sprintf("ctor=%q err=%s bytes=%d expected %d", o.CtorErr, o.Err, len(o.Bytes), len(data)), c)
		return
	}
	if c.API == "flate" && dict == nil {
		cons := -1
		if o.LeftKnown && c.Src.Kind == "bufio" {
			cons = len(stream) - len(o.Left)
		}
		compareReaderModel(rep, pool, c, nil, stream, false, &o, true, cons, false)
	}
	if !o.LeftKnown {
		return
	}
	if !bytes.Equal(o.Left, suffix) {
		class := ""
		if c.Src.Kind != "bufio" && len(o.Left) < len(suffix) {
			class = "F-C05b-bytereader-overread"
		}
		rep.Violate("source-position", class, fmt.Sprintf("after io.EOF %d bytes are left in the source, expected the %d bytes that follow the stream", len(o.Left), len(suffix)), c)
	}
}

// ---------- C11 ----------

func checkC11(rep *Report, pool *DriverPool, c *RCase) {
	stream, data, _, shape, dict := c.input()
	api := c.API
	if api == "gzip" && (c.Src.After >= len(stream) || c.Src.After < 0) {
		// in its default mode a gzip Reader has to look for a further member, which only the
		// source's EOF can rule out: the end of the stream is checked with Multistream(false)
		api = "gzip1"
	}
	o := RunR(api, false, stream, dict, c.Src, c.Ctor, nil, c.Reads, c.RSeed, 0)
	rep.Eval(fmt.Sprintf("%s|%s|%s|%d|%d", c.API, shape, c.Src, c.Src.After, c.Expect), c.sample())
	rep.Count("term:" + c.Src.Term)
	rep.Count("api:" + c.API)
	atEnd := c.Src.After >= len(stream) || c.Src.After < 0
	rep.Count(fmt.Sprintf("at-end:%v", atEnd))
	rep.DigestR(c.ID, &o, []byte(fmt.Sprint(len(o.Bytes) >= c.Expect)))
	if o.Panic != "" || o.Hang {
		rep.Violate("panic-or-hang", "", o.Panic, c)
		return
	}
	if o.CtorErr != "" {
		rep.Violate("constructor-needs-more-input", "", "constructor returned "+o.CtorErr+" although the whole header had been delivered", c)
		return
	}
	if !isPrefix(o.Bytes, data) {
		rep.Violate("wrong-bytes", "", "delivered bytes are not a prefix of the data", c)
		return
	}
	switch c.Src.Term {
	case "gate":
		got := o.GateAt
		if got < 0 {
			got = len(o.Bytes)
		}
		if got < c.Expect {
			rep.Violate("waits-for-input-it-does-not-need", "", fmt.Sprintf("the source had delivered everything up to the sync point (%d data bytes); the Reader asked it for more after returning only %d", c.Expect, got), c)
			return
		}
		if atEnd && o.GateAt >= 0 {
			rep.Violate("asks-beyond-end-of-stream", "", "the whole stream had been delivered but the Reader asked the source for more before returning io.EOF", c)
		}
	case "err", "errdata":
		if len(o.Bytes) < c.Expect {
			rep.Violate("data-dropped-on-source-error", "", fmt.Sprintf("%d data bytes were decodable from what the source delivered before failing; only %d were returned before %s", c.Expect, len(o.Bytes), o.Err), c)
			return
		}
		if atEnd && o.Err != "EOF" {
			rep.Violate("end-of-stream-needs-healthy-source", "", "the whole stream had been delivered; the Reader returned "+o.Err+" instead of io.EOF", c)
		}
	}
}

// ---------- C13 ----------

func checkC13(rep *Report, pool *DriverPool, c *RCase) {
	stream, _, _, shape, dict := c.input()
	fresh := RunR(c.API, false, stream, dict, c.Src, "new", nil, c.Reads, c.RSeed, 0)
	ctor := "reuse"
	if c.Ctor == "reuse-same" {
		ctor = "reuse-same"
	}
	re := RunR(c.API, false, stream, dict, c.Src, ctor, c.Prior, c.Reads, c.RSeed, 0)
	rep.Eval(fmt.Sprintf("%s|%s|%d|%s|%d|%d", c.API, shape, len(stream), c.Prior.Stream.Kind, c.Prior.Read, c.Prior.Cut), c.sample()+fmt.Sprintf(" prior=%s read=%d cut=%d", c.Prior.Stream.describe(), c.Prior.Read, c.Prior.Cut))
	rep.Count("api:" + c.API)
	rep.Count("fresh:" + fresh.Err + fresh.CtorErr)
	rep.DigestR(c.ID, &re)
	if re.Panic != "" || re.Hang || fresh.Panic != "" {
		rep.Violate("panic-or-hang", "", fmt.Sprintf("reused: panic=%q hang=%v; fresh: panic=%q", re.Panic, re.Hang, fresh.Panic), c)
		return
	}
	// what is left in the source is compared whenever the two runs see the same delivery schedule.  In
	// the same-source history the second stream sits behind the first one in ONE buffered source, so
	// the buffer refills fall at other offsets of the second stream than in the fresh run: there the
	// leftover is comparable only after io.EOF (exact consumption), not after an error
	leftComparable := ctor != "reuse-same" || (fresh.Err == "EOF" && re.Err == "EOF")
	if re.Err != fresh.Err || re.CtorErr != fresh.CtorErr || !bytes.Equal(re.Bytes, fresh.Bytes) || fmt.Sprint(re.After) != fmt.Sprint(fresh.After) || (leftComparable && !bytes.Equal(re.Left, fresh.Left)) {
		rep.Violate("reset-differs-from-new", "", fmt.Sprintf("fresh Reader: ctor=%q %d bytes, %s, left %d; after Reset: ctor=%q %d bytes, %s, left %d (first difference at %d)",
			fresh.CtorErr, len(fresh.Bytes), fresh.Err, len(fresh.Left), re.CtorErr, len(re.Bytes), re.Err, len(re.Left), firstDiff(re.Bytes, fresh.Bytes)), c)
	}
}

// ---------- C15 ----------

func checkC15(rep *Report, pool *DriverPool, c *RCase) {
	stream, data, _, shape, dict := c.input()
	o := RunR(c.API, false, stream, dict, c.Src, c.Ctor, nil, c.Reads, c.RSeed, 0)
	rep.Eval(fmt.Sprintf("%s|%s|%d|%s|%d", c.API, shape, len(stream), c.Src.Term, c.Src.After), c.sample())
	rep.Count("api:" + c.API)
	rep.Count("term:" + c.Src.Term)
	rep.DigestR(c.ID, &o)
	if o.Panic != "" || o.Hang {
		rep.Violate("panic-or-hang", "", o.Panic, c)
		return
	}
	if engineApplies(c.API, c.Ctor, c.Src, dict) {
		compareEngine(rep, pool, c, stream, c.Src, &o)
	}
	if c.API == "flate" && dict == nil && (c.Src.Term == "err" || c.Src.Term == "errdata") && c.Src.After >= 0 && c.Src.After < len(stream) {
		compareReaderModel(rep, pool, c, nil, stream[:c.Src.After], true, &o, true, -1, true)
	}
	if c.Src.After >= len(stream) && c.Src.Term == "err" && c.API == "flate" {
		// the whole stream was delivered: both io.EOF and the error are defensible; C11 decides
		rep.Count("fault-after-end")
	}
	if !isPrefix(o.Bytes, data) {
		rep.Violate("wrong-bytes-before-error", "", fmt.Sprintf("%d bytes returned are not a prefix of the data (first difference %d)", len(o.Bytes), firstDiff(o.Bytes, data)), c)
		return
	}
	if o.CtorErr != "" {
		if !o.ErrIsSrc {
			rep.Violate("source-error-replaced", "", "constructor returned "+o.CtorErr+" instead of the source's error", c)
		}
		return
	}
	if !o.ErrIsSrc {
		// (a gzip Reader in its default mode has to look for a further member after the trailer: there the
		// source's failure is what it must report, as compress/gzip does)
		if o.Err == "EOF" && len(o.Bytes) == len(data) && c.Src.After >= len(stream)-trailerLen(c.API) && c.API != "gzip" {
			rep.Count("complete-before-fault")
			return
		}
		rep.Violate("source-error-replaced", "", fmt.Sprintf("the source failed after %d of %d bytes; the Reader returned %s after %d bytes", c.Src.After, len(stream), o.Err, len(o.Bytes)), c)
		return
	}
	for _, a := range o.After {
		if a != "0/"+o.Err {
			rep.Violate("error-not-sticky", "", fmt.Sprintf("further Reads returned %v", o.After), c)
			break
		}
	}
}

func trailerLen(api string) int { return 0 }
