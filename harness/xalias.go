package main

import (
	"bufio"
	"bytes"
	stdflate "compress/flate"
	stdgzip "compress/gzip"
	stdzlib "compress/zlib"
	"fmt"
	"io"

	"github.com/intel/fastgo/compress/flate"
	"github.com/intel/fastgo/compress/gzip"
	"github.com/intel/fastgo/compress/zlib"
)

// Instances must not share state through objects one of them once borrowed: Reader A reads one
// stream from a caller-owned bufio.Reader, is then recycled (Reset) onto an unrelated plain source
// and used there, while the caller's buffer is handed to Reader B for the stream that follows.  B
// (and the buffer itself) must behave as if A had never existed.
type aliasCase struct {
	Prop string `json:"property"`
	ID   string `json:"id"`
	API  string `json:"api"`
	Buf  int    `json:"buf"`
	N1   int    `json:"n1"`
	N2   int    `json:"n2"`
	Seed uint64 `json:"seed"`
}

func container(api string, payload []byte, level int) []byte {
	var b bytes.Buffer
	switch api {
	case "gzip":
		w, _ := stdgzip.NewWriterLevel(&b, level)
		w.Write(payload)
		w.Close()
	case "zlib":
		w, _ := stdzlib.NewWriterLevel(&b, level)
		w.Write(payload)
		w.Close()
	default:
		w, _ := stdflate.NewWriter(&b, level)
		w.Write(payload)
		w.Close()
	}
	return b.Bytes()
}

func checkAlias(rep *Report, c *aliasCase) {
	r := NewRng(c.Seed)
	p1 := DataSpec{Gen: "text", Seed: r.U64(), N: c.N1}.Generate()
	p2 := DataSpec{Gen: "uni6", Seed: r.U64(), N: c.N2}.Generate()
	p3 := DataSpec{Gen: "text", Seed: r.U64(), N: 3000}.Generate()
	s1, s2, s3 := container(c.API, p1, 6), container(c.API, p2, 1), container(c.API, p3, 9)
	rep.Eval(fmt.Sprintf("alias|%s|%d|%d|%d", c.API, c.Buf, c.N1, c.N2), fmt.Sprintf("alias %s buf=%d n1=%d n2=%d", c.API, c.Buf, c.N1, c.N2))
	pan := ""
	var got1, got2, got3 []byte
	var e1, e2, e3 error
	func() {
		defer func() {
			if x := recover(); x != nil {
				pan = fmt.Sprint(x)
			}
		}()
		br := bufio.NewReaderSize(bytes.NewReader(append(append([]byte{}, s1...), s2...)), c.Buf)
		var a, b io.Reader
		var resetA func(io.Reader) error
		switch c.API {
		case "gzip":
			za, err := gzip.NewReader(br)
			if err != nil {
				e1 = err
				return
			}
			za.Multistream(false)
			a = za
			resetA = func(s io.Reader) error { return za.Reset(s) }
		case "zlib":
			za, err := zlib.NewReader(br)
			if err != nil {
				e1 = err
				return
			}
			a = za
			resetA = func(s io.Reader) error { return za.(zlib.Resetter).Reset(s, nil) }
		default:
			fa := flate.NewReader(br)
			a = fa
			resetA = func(s io.Reader) error { return fa.(flate.Resetter).Reset(s, nil) }
		}
		got1, e1 = io.ReadAll(a)
		// A is recycled onto an unrelated source that is not a bufio.Reader
		if err := resetA(bytes.NewReader(s3)); err != nil {
			e3 = err
			return
		}
		// the caller's buffer goes to B
		switch c.API {
		case "gzip":
			zb, err := gzip.NewReader(br)
			if err != nil {
				e2 = err
				return
			}
			zb.Multistream(false)
			b = zb
		case "zlib":
			zb, err := zlib.NewReader(br)
			if err != nil {
				e2 = err
				return
			}
			b = zb
		default:
			b = flate.NewReader(br)
		}
		// interleave: some of B, all of A, the rest of B
		tmp := make([]byte, 700)
		n, _ := io.ReadFull(b, tmp)
		got2 = append(got2, tmp[:n]...)
		got3, e3 = io.ReadAll(a)
		rest, err := io.ReadAll(b)
		got2 = append(got2, rest...)
		e2 = err
	}()
	if pan != "" {
		rep.Violate("panic", "", "recycled-reader history: "+pan, c)
		return
	}
	if e1 != nil || !bytes.Equal(got1, p1) {
		rep.Violate("recycled-reader-disturbs-others", "", fmt.Sprintf("first stream from the caller's buffer: %d bytes, %v; expected %d", len(got1), e1, len(p1)), c)
		return
	}
	if e3 != nil || !bytes.Equal(got3, p3) {
		rep.Violate("recycled-reader-disturbs-others", "", fmt.Sprintf("the recycled Reader on its new source: %d bytes, %v; expected %d", len(got3), e3, len(p3)), c)
		return
	}
	if e2 != nil || !bytes.Equal(got2, p2) {
		rep.Violate("recycled-reader-disturbs-others", "", fmt.Sprintf("Reader B on the caller's buffer, after Reader A (which once read from that buffer) was Reset onto another source: %d bytes, %v; expected %d bytes, nil", len(got2), e2, len(p2)), c)
	}
}
