package main

import (
	"bytes"
	"fmt"
	"strconv"
	"strings"
)

// Correspondence of the extracted Coq reader model (coq/RModel/Reader.v, function rrun) with the
// implementation: for the same source content and terminal behaviour the implementation must
// hand out the bytes the model hands out and end with the same kind of error; after io.EOF the
// number of source bytes consumed must be the model's.

type ModelRObs struct {
	Err      string // EOF | UEOF | CORRUPT | SRC<n>
	Bytes    []byte
	Consumed int
}

func (p *DriverPool) ModelR(dict, delivered []byte, term string) (*ModelRObs, error) {
	ans, err := p.Ask("R " + hexs(dict) + " " + hexs(delivered) + " " + term)
	if err != nil {
		return nil, err
	}
	f := strings.Split(ans, " ")
	if len(f) != 4 || f[0] != "R" {
		return nil, fmt.Errorf("driver answered %q", trunc(ans, 200))
	}
	m := &ModelRObs{Err: f[1], Bytes: unhex(f[2])}
	m.Consumed, _ = strconv.Atoi(f[3])
	return m, nil
}

// compareReaderModel: delivered = every byte the source hands over before its terminal
// behaviour (the stream, possibly cut, plus any suffix); srcErr = the source ends with an error
// instead of EOF; exact = the stream is one the standard library accepts (or a prefix of one), so
// the implementation must agree with the model exactly (outside that class fastgo may be
// stricter than the permissive reference inflater, which the direct oracles bound from below);
// consumed = source bytes consumed if the harness could observe it, else -1.
func compareReaderModel(rep *Report, pool *DriverPool, c interface{}, dict, delivered []byte, srcErr bool, o *RObs, exact bool, consumed int, truncated bool) {
	if pool == nil || o.Panic != "" || o.Hang || o.CtorErr != "" {
		return
	}
	if len(delivered) > 400000 {
		rep.Count("rmodel:skipped-too-large")
		return
	}
	if modelTier != "thorough" && len(delivered) > 3000 {
		// quick tier: every small input, one in twelve of the larger ones (chosen by content)
		h := uint32(len(delivered))
		for _, b := range delivered[:64] {
			h = h*31 + uint32(b)
		}
		if h%12 != 0 {
			rep.Count("rmodel:skipped-sampled-out")
			return
		}
	}
	term := "eof"
	if srcErr {
		term = "e1"
	}
	m, err := pool.ModelR(dict, delivered, term)
	if err != nil {
		rep.Note("model driver error: " + err.Error())
		return
	}
	rep.mu.Lock()
	rep.ModelCases++
	rep.mu.Unlock()
	rep.Count("rmodel:" + m.Err)
	got := o.Err
	if o.ErrIsSrc {
		got = "SRC1"
	}
	diff := ""
	switch {
	case !isPrefix(o.Bytes, m.Bytes):
		diff = fmt.Sprintf("the %d bytes handed out are not a prefix of the model's %d bytes (first difference at %d)", len(o.Bytes), len(m.Bytes), firstDiff(o.Bytes, m.Bytes))
	case got == "EOF" && m.Err != "EOF":
		diff = "the implementation returned io.EOF, the model " + m.Err
	case exact && got != m.Err:
		diff = fmt.Sprintf("final error: model %s, implementation %s", m.Err, got)
	case exact && !truncated && !bytes.Equal(o.Bytes, m.Bytes):
		diff = fmt.Sprintf("model hands out %d bytes, implementation %d", len(m.Bytes), len(o.Bytes))
	case exact && truncated && len(m.Bytes)-len(o.Bytes) > 3*258:
		diff = fmt.Sprintf("truncated stream: model hands out %d bytes, implementation only %d", len(m.Bytes), len(o.Bytes))
	case exact && m.Err == "EOF" && consumed >= 0 && consumed != m.Consumed:
		diff = fmt.Sprintf("after io.EOF the implementation has consumed %d source bytes, the model %d", consumed, m.Consumed)
	}
	if diff != "" {
		rep.mu.Lock()
		rep.ModelDiffs++
		rep.mu.Unlock()
		rep.Violate("model-mismatch", "", "reader model (coq/RModel rrun) vs implementation: "+diff, c)
	}
}
