package main

import (
	"bytes"
	"fmt"
	"strconv"
	"strings"
)

// Correspondence of the extracted Coq reader model (coq/RModel/Reader.v, function rrun) with the
// implementation: for the same source content and terminal behaviour the implementation must
// hand out the bytes the model hands out and end with the same kind of error; after io.EOF the
// number of source bytes consumed must be the model's.

type ModelRObs struct {
	Err      string // EOF | UEOF | CORRUPT | SRC<n>
	Bytes    []byte
	Consumed int
}

func (p *DriverPool) ModelR(dict, delivered []byte, term string) (*ModelRObs, error) {
	ans, err := p.Ask("R " + hexs(dict) + " " + hexs(delivered) + " " + term)
	if err != nil {
		return nil, err
	}
	f := strings.Split(ans, " ")
	if len(f) != 4 || f[0] != "R" {
		return nil, fmt.Errorf("driver answered %q", trunc(ans, 200))
	}
	m := &ModelRObs{Err: f[1], Bytes: unhex(f[2])}
	m.Consumed, _ = strconv.Atoi(f[3])
	return m, nil
}

// compareReaderModel: delivered = every byte the source hands over before its terminal
// behaviour (the stream, possibly cut, plus any suffix); srcErr = the source ends with an error
// instead of EOF; exact = the stream is one the standard library accepts (or a prefix of one), so
// the implementation must agree with the model exactly (outside that class fastgo may be
// stricter than the permissive reference inflater, which the direct oracles bound from below);
// consumed = source bytes consumed if the harness could observe it, else -1.
func compareReaderModel(rep *Report, pool *DriverPool, c interface{}, dict, delivered []byte, srcErr bool, o *RObs, exact bool, consumed int, truncated bool) {
	if pool == nil || o.Panic != "" || o.Hang || o.CtorErr != "" {
		return
	}
	if len(delivered) > 400000 {
		rep.Count("rmodel:skipped-too-large")
		return
	}
	if !modelTimeLeft() {
		rep.Count("rmodel:skipped-time-budget")
		return
	}
	if modelTier != "thorough" && len(delivered) > 3000 {
		// quick tier: every small input, one in twelve of the larger ones (chosen by content)
		h := uint32(len(delivered))
		for _, b := range delivered[:64] {
			h = h*31 + uint32(b)
		}
		if h%12 != 0 {
			rep.Count("rmodel:skipped-sampled-out")
			return
		}
	}
	term := "eof"
	if srcErr {
		term = "e1"
	}
	m, err := pool.ModelR(dict, delivered, term)
	if err != nil {
		rep.Note("model driver error: " + err.Error())
		return
	}
	rep.mu.Lock()
	rep.ModelCases++
	rep.mu.Unlock()
	rep.Count("rmodel:" + m.Err)
	got := o.Err
	if o.ErrIsSrc {
		got = "SRC1"
	}
	diff := ""
	switch {
	case !isPrefix(o.Bytes, m.Bytes):
		diff = fmt.Sprintf("the %d bytes handed out are not a prefix of the model's %d bytes (first difference at %d)", len(o.Bytes), len(m.Bytes), firstDiff(o.Bytes, m.Bytes))
	case got == "EOF" && m.Err != "EOF":
		diff = "the implementation returned io.EOF, the model " + m.Err
	case exact && got != m.Err:
		diff = fmt.Sprintf("final error: model %s, implementation %s", m.Err, got)
	case exact && !truncated && !bytes.Equal(o.Bytes, m.Bytes):
		diff = fmt.Sprintf("model hands out %d bytes, implementation %d", len(m.Bytes), len(o.Bytes))
	case exact && truncated && len(m.Bytes)-len(o.Bytes) > 2: // theorem engine_progress: at most 2 bytes are withheld
		diff = fmt.Sprintf("truncated stream: model hands out %d bytes, implementation only %d", len(m.Bytes), len(o.Bytes))
	case exact && m.Err == "EOF" && consumed >= 0 && consumed != m.Consumed:
		diff = fmt.Sprintf("after io.EOF the implementation has consumed %d source bytes, the model %d", consumed, m.Consumed)
	}
	if diff != "" {
		rep.mu.Lock()
		rep.ModelDiffs++
		rep.mu.Unlock()
		rep.Violate("model-mismatch", "", "reader model (coq/RModel rrun) vs implementation: "+diff, c)
	}
}

// ---- containers: coq/RModel/Containers.v gz_read / zl_read ----

type ModelCObs struct {
	Err    string
	Bytes  []byte
	Left   int
	Hdrs   int
	AtCtor bool
}

func (p *DriverPool) ModelC(api string, multi bool, dict []byte, hasDict bool, in []byte) (*ModelCObs, error) {
	var req string
	if api == "zlib" {
		d := "N"
		if hasDict {
			d = hexs(dict)
		}
		req = "Z " + d + " " + hexs(in)
	} else {
		m := "0"
		if multi {
			m = "1"
		}
		req = "G " + m + " " + hexs(in)
	}
	ans, err := p.Ask(req)
	if err != nil {
		return nil, err
	}
	f := strings.Split(ans, " ")
	if len(f) != 6 || f[0] != "G" {
		return nil, fmt.Errorf("driver answered %q", trunc(ans, 200))
	}
	m := &ModelCObs{Err: f[1], Bytes: unhex(f[2]), AtCtor: f[5] == "1"}
	m.Left, _ = strconv.Atoi(f[3])
	m.Hdrs, _ = strconv.Atoi(f[4])
	return m, nil
}

// compareContainerModel: the implementation's gzip/zlib Reader on input `in` against the container
// model.  exact = the deflate payloads inside are streams the standard library accepts or
// corruptions/truncations of them (so fastgo's inflater must agree with the reference inflater on the
// verdict); the error of the first failing layer is compared by kind.
func compareContainerModel(rep *Report, pool *DriverPool, c interface{}, api string, multi bool, dict []byte, hasDict bool, in []byte, o *RObs, left int) {
	if pool == nil || o.Panic != "" || o.Hang || len(in) > 200000 || !modelTimeLeft() {
		return
	}
	m, err := pool.ModelC(api, multi, dict, hasDict, in)
	if err != nil {
		rep.Note("model driver error: " + err.Error())
		return
	}
	rep.mu.Lock()
	rep.ModelCases++
	rep.mu.Unlock()
	rep.Count("cmodel:" + m.Err)
	got := o.Err
	if o.CtorErr != "" {
		got = o.CtorErr
	}
	diff := ""
	switch {
	case !isPrefix(o.Bytes, m.Bytes):
		diff = fmt.Sprintf("the %d bytes handed out are not a prefix of the model's %d bytes (first difference at %d)", len(o.Bytes), len(m.Bytes), firstDiff(o.Bytes, m.Bytes))
	case got == "EOF" && m.Err != "EOF":
		diff = "the implementation ended with io.EOF, the model with " + m.Err
	case m.Err == "EOF" && (got != "EOF" || !bytes.Equal(o.Bytes, m.Bytes)):
		diff = fmt.Sprintf("the model reads %d bytes then io.EOF; the implementation %d bytes then %s", len(m.Bytes), len(o.Bytes), got)
	case m.Err == "EOF" && left >= 0 && left != m.Left:
		diff = fmt.Sprintf("after io.EOF %d bytes are left in the source, the model leaves %d", left, m.Left)
	case m.Err != "EOF" && got != m.Err && !(m.Err == "CORRUPT" && got == "UEOF") && !(m.Err == "UEOF" && got == "CORRUPT"):
		// (a corrupt deflate stream may be reported as unexpected EOF or vice versa when the input ends
		// before the implementation reaches the defect: the flate-level checks bound that)
		diff = fmt.Sprintf("error kind: model %s, implementation %s", m.Err, got)
	}
	if diff != "" {
		rep.mu.Lock()
		rep.ModelDiffs++
		rep.mu.Unlock()
		rep.Violate("model-mismatch", "", "container model (coq/RModel/Containers.v) vs implementation: "+diff, c)
	}
}

// ---- the engine model (coq/RModel/Engine.v erun_obs): a faithful model of the pure-Go decoder,
// bufio.Reader and Read/step: at acceleration level 0 every Read call must return exactly the number
// of bytes and the kind of result the model computes, and the source must be consumed identically ----

func engineApplies(api, ctor string, sp SrcSpec, dict []byte) bool {
	if api != "flate" || ctor != "new" || dict != nil || sp.Kind != "bufio" {
		return false
	}
	if sp.Term != "eof" && sp.Term != "err" {
		return false // the model's source never returns data together with an error
	}
	return buildName == "noasm" || VerifLevel() == 0
}

func compareEngine(rep *Report, pool *DriverPool, c interface{}, stream []byte, sp SrcSpec, o *RObs) {
	if pool == nil || o.Panic != "" || o.Hang || o.CtorErr != "" || len(o.ReadLog) == 0 || len(o.ReadLog) >= 60000 || len(o.SrcLog) >= 200000 {
		return
	}
	if !modelTimeLeft() {
		rep.Count("engine:skipped-time-budget")
		return
	}
	cost := len(o.Bytes) + 40*len(o.ReadLog) + 20*len(o.SrcLog)
	if (modelTier != "thorough" && cost > 120000) || cost > 1500000 {
		rep.Count("engine:skipped-too-large")
		return
	}
	delivered := stream
	if sp.Term == "err" && sp.After >= 0 && sp.After < len(stream) {
		delivered = stream[:sp.After]
	}
	ints := func(xs []int) string {
		if len(xs) == 0 {
			return "-"
		}
		var b strings.Builder
		for i, x := range xs {
			if i > 0 {
				b.WriteByte(',')
			}
			b.WriteString(strconv.Itoa(x))
		}
		return b.String()
	}
	reads := make([]int, len(o.ReadLog))
	for i, r := range o.ReadLog {
		reads[i] = r[0]
	}
	bs := sp.Buf
	if bs < 16 {
		bs = 16
	}
	ans, err := pool.Ask(fmt.Sprintf("E %d %s %s %s %s", bs, ints(o.SrcLog), sp.Term, ints(reads), hexs(delivered)))
	if err != nil {
		rep.Note("engine driver error: " + err.Error())
		return
	}
	f := strings.Split(ans, " ")
	if len(f) != 4 || f[0] != "E" {
		rep.Note("engine driver answered " + trunc(ans, 200))
		return
	}
	rep.mu.Lock()
	rep.ModelCases++
	rep.mu.Unlock()
	rep.Count("engine:compared")
	var mreads [][2]int
	if f[2] != "-" {
		for _, x := range strings.Split(f[2], ",") {
			var n, code int
			fmt.Sscanf(x, "%d:%d", &n, &code)
			mreads = append(mreads, [2]int{n, code})
		}
	}
	kinds := map[string]int{"EOF": 1, "UEOF": 2, "CORRUPT": 3}
	want := kinds[o.Err]
	if o.ErrIsSrc {
		want = 4
	}
	diff := ""
	switch {
	case len(mreads) != len(o.ReadLog):
		diff = fmt.Sprintf("the model needs %d Read calls, the implementation made %d", len(mreads), len(o.ReadLog))
	case !bytes.Equal(unhex(f[3]), o.Bytes):
		diff = fmt.Sprintf("bytes differ at offset %d (model %d bytes, implementation %d)", firstDiff(unhex(f[3]), o.Bytes), len(unhex(f[3])), len(o.Bytes))
	default:
		for i := range mreads {
			if mreads[i][0] != o.ReadLog[i][1] {
				diff = fmt.Sprintf("Read call %d (len %d): model returns %d bytes, implementation %d", i, o.ReadLog[i][0], mreads[i][0], o.ReadLog[i][1])
				break
			}
			if i < len(mreads)-1 && mreads[i][1] != 0 {
				diff = fmt.Sprintf("Read call %d: the model ends with result code %d, the implementation continued", i, mreads[i][1])
				break
			}
		}
		if diff == "" && want != 0 && mreads[len(mreads)-1][1] != want {
			diff = fmt.Sprintf("final result: model code %d, implementation %s", mreads[len(mreads)-1][1], o.Err)
		}
	}
	if diff == "" && o.LeftKnown && (o.Err == "EOF") {
		var cons int
		fmt.Sscanf(f[1], "%d", &cons)
		if cons != len(delivered)-len(o.Left) {
			diff = fmt.Sprintf("source bytes consumed: model %d, implementation %d", cons, len(delivered)-len(o.Left))
		}
	}
	if diff != "" {
		rep.mu.Lock()
		rep.ModelDiffs++
		rep.mu.Unlock()
		rep.Violate("model-mismatch", "", "engine model (coq/RModel/Engine.v erun_obs) vs implementation: "+diff, c)
	}
}
