package main

import (
	"fmt"
	"strconv"
	"strings"
)

// Rng is a splitmix64 generator: every random choice in the harness derives from one
// seed so that a case can be regenerated from its description.
type Rng struct{ s uint64 }

func NewRng(seed uint64) *Rng { return &Rng{s: seed*0x9E3779B97F4A7C15 + 0x1234567} }
func (r *Rng) U64() uint64 {
	r.s += 0x9E3779B97F4A7C15
	z := r.s
	z = (z ^ (z >> 30)) * 0xBF58476D1CE4E5B9
	z = (z ^ (z >> 27)) * 0x94D049BB133111EB
	return z ^ (z >> 31)
}
func (r *Rng) Intn(n int) int {
	if n <= 0 {
		return 0
	}
	return int(r.U64() % uint64(n))
}
func (r *Rng) Range(lo, hi int) int { return lo + r.Intn(hi-lo+1) }
func (r *Rng) Bool() bool           { return r.U64()&1 == 1 }
func (r *Rng) Pick(xs []int) int    { return xs[r.Intn(len(xs))] }
func (r *Rng) PickS(xs []string) string {
	return xs[r.Intn(len(xs))]
}
func (r *Rng) Bytes(n int) []byte {
	b := make([]byte, n)
	for i := 0; i < n; i += 8 {
		v := r.U64()
		for j := 0; j < 8 && i+j < n; j++ {
			b[i+j] = byte(v >> (8 * j))
		}
	}
	return b
}

// DataSpec names a deterministic byte sequence: generator kind, seed, length.
type DataSpec struct {
	Gen  string `json:"gen"`
	Seed uint64 `json:"seed"`
	N    int    `json:"n"`
	Hex  string `json:"hex,omitempty"` // explicit bytes (Gen == "hex")
}

func (d DataSpec) String() string { return fmt.Sprintf("%s/%d/%d", d.Gen, d.Seed, d.N) }

var dataKinds = []string{"uni1", "uni2", "uni3", "uni4", "uni6", "uni8", "fib", "one", "two", "text",
	"plant4095", "plant4096", "plant4097", "plant32767", "plant32768", "plant32769", "plant1", "plant2", "plant70000",
	"run", "per1", "per2", "per3", "per4", "per7", "per31", "per64", "rnd", "mix", "zeros", "refs", "rarerun"}

func fibCounts(n int) []int {
	a, b := 1, 1
	var out []int
	tot := 0
	for tot+a <= n && len(out) < 250 {
		out = append(out, a)
		tot += a
		a, b = b, a+b
	}
	return out
}

// Generate produces the bytes named by the spec.
func (d DataSpec) Generate() []byte {
	n := d.N
	r := NewRng(d.Seed ^ 0xD1CE)
	out := make([]byte, 0, n)
	kind := d.Gen
	switch {
	case kind == "hex":
		return unhex(d.Hex)
	case strings.HasPrefix(kind, "uni"):
		k, _ := strconv.Atoi(kind[3:])
		base := byte(r.Intn(256))
		for len(out) < n {
			out = append(out, base+byte(r.Intn(1<<k)))
		}
	case kind == "fib":
		cs := fibCounts(n)
		perm := r.Bytes(256)
		_ = perm
		for i, c := range cs {
			for j := 0; j < c; j++ {
				out = append(out, byte(i*7+3))
			}
		}
		for len(out) < n {
			out = append(out, byte(3))
		}
		// shuffle
		for i := len(out) - 1; i > 0; i-- {
			j := r.Intn(i + 1)
			out[i], out[j] = out[j], out[i]
		}
	case kind == "one":
		b := byte(r.Intn(256))
		for len(out) < n {
			out = append(out, b)
		}
	case kind == "zeros":
		out = make([]byte, n)
	case kind == "two":
		a, b := byte(r.Intn(256)), byte(r.Intn(256))
		for len(out) < n {
			if r.Intn(3) == 0 {
				out = append(out, a)
			} else {
				out = append(out, b)
			}
		}
	case kind == "text":
		nw := 50 + r.Intn(400)
		words := make([][]byte, nw)
		for i := range words {
			w := make([]byte, 2+r.Intn(9))
			for j := range w {
				w[j] = "etaoinshrdlucmfwypvbgkqjxz"[r.Intn(1+r.Intn(26))]
			}
			words[i] = w
		}
		for len(out) < n {
			out = append(out, words[r.Intn(1+r.Intn(nw))]...)
			out = append(out, ' ')
		}
	case strings.HasPrefix(kind, "plant"):
		dist, _ := strconv.Atoi(kind[5:])
		blk := r.Bytes(8 + r.Intn(300))
		for len(out) < n {
			out = append(out, blk...)
			if dist > len(blk) {
				out = append(out, r.Bytes(dist-len(blk))...)
			}
		}
	case kind == "run":
		for len(out) < n {
			b := byte(r.Intn(256))
			l := 259 + r.Intn(342)
			if r.Intn(4) == 0 {
				l = 1 + r.Intn(20)
			}
			for j := 0; j < l; j++ {
				out = append(out, b)
			}
			out = append(out, r.Bytes(r.Intn(5))...)
		}
	case strings.HasPrefix(kind, "per"):
		p, _ := strconv.Atoi(kind[3:])
		blk := r.Bytes(p)
		ph := r.Intn(p)
		for len(out) < n {
			out = append(out, blk[ph])
			ph = (ph + 1) % p
		}
	case kind == "tokedge":
		// incompressible bytes (one token per byte; two per token in the assembly match finders)
		// up to just before the 32768-token block limit, then a run longer than 258 so that the
		// limit falls inside the repeated 258-tokens, then more of the same
		for len(out) < n {
			p := 32768
			if r.Intn(3) == 0 {
				p = 65536
			}
			p -= r.Range(-5, 30)
			out = append(out, r.Bytes(p)...)
			b := byte(r.Intn(256))
			for j := r.Range(300, 6000); j > 0; j-- {
				out = append(out, b)
			}
			out = append(out, r.Bytes(r.Intn(100))...)
		}
	case kind == "refs":
		// back-references of every length (4..258) at log-uniformly distributed distances, with a few
		// random literals in between: the tokens of a block carry many different, long codes
		lead := 33000
		if n < 66000 {
			lead = n / 2
		}
		out = append(out, r.Bytes(lead)...)
		for len(out) < n {
			if r.Intn(3) == 0 || len(out) < 8 {
				out = append(out, r.Bytes(1+r.Intn(4))...)
			}
			l := 4 + r.Intn(255)
			k := r.Intn(15)
			for k > 0 && (2<<uint(k)) > len(out) {
				k--
			}
			d := 1<<uint(k) + r.Intn(1<<uint(k))
			for j := 0; j < l; j++ {
				out = append(out, out[len(out)-d])
			}
		}
	case kind == "rarerun":
		// poorly compressible bytes with an occasional run longer than 258: the length-258 symbol is
		// rare in its block and receives a long code
		bits := r.Pick([]int{8, 8, 7, 6})
		for len(out) < n {
			m := r.Range(2000, 40000)
			for j := 0; j < m; j++ {
				out = append(out, byte(r.Intn(1<<uint(bits))))
			}
			b := byte(r.Intn(256))
			for j := r.Range(259, 700); j > 0; j-- {
				out = append(out, b)
			}
		}
	case kind == "deeprun":
		// random bytes; in the first 64 KiB the values 0..k-1 are made rare with geometrically (or
		// Fibonacci) growing counts, which makes the optimal code of the first block as deep as the
		// format allows, and one run of 259..300 equal bytes is planted near the start
		out = r.Bytes(n)
		head := 66000
		if head > n {
			head = n
		}
		for i := 0; i < head; i++ {
			if out[i] < 16 {
				out[i] += 16 + byte(r.Intn(200))
			}
		}
		for i, e := 100, 100+r.Range(259, 300); i < e && i < n; i++ {
			out[i] = 0x55
		}
		var tail []int
		if r.Bool() {
			for c := 3; len(tail) < 7; c *= 2 {
				tail = append(tail, c)
			}
		} else {
			a, b := 1, 1
			for len(tail) < 14 {
				tail = append(tail, a)
				a, b = b, a+b
			}
		}
		pos, step := 1000, r.Pick([]int{31, 37, 41})
		for v, c := range tail {
			for j := 0; j < c && pos < head; j++ {
				out[pos] = byte(v)
				pos += step
			}
		}
	case kind == "tailrep":
		// a short text whose end repeats an earlier piece: a match that ends within the last 0..14 bytes
		// of the input (the exit paths of the match finders at the end of their input), in a block with
		// few tokens, so that the match's length symbol occurs nowhere else
		t := r.Intn(15)
		l := r.Range(4, 60)
		if n < l+t+8 {
			out = r.Bytes(n)
			break
		}
		for len(out) < n-l-t {
			out = append(out, byte('a'+r.Intn(26)))
		}
		st := r.Intn(len(out) - l + 1)
		out = append(out, out[st:st+l]...)
		for len(out) < n {
			out = append(out, byte('A'+r.Intn(26)))
		}
	case kind == "dom50":
		// every second byte is the same value (16-bit samples with a constant high byte), the rest is
		// uniform: in a block of 128 KiB the dominant value would occur 65536 times
		for len(out) < n {
			out = append(out, 0, byte(1+r.Intn(255)))
		}
	case kind == "rnd":
		out = r.Bytes(n)
	case kind == "mix":
		for len(out) < n {
			k := dataKinds[r.Intn(len(dataKinds))]
			if k == "mix" || k == "plant70000" {
				k = "text"
			}
			m := 1 + r.Intn(1+n/3)
			out = append(out, DataSpec{Gen: k, Seed: r.U64(), N: m}.Generate()...)
		}
	default:
		panic("unknown data kind " + kind)
	}
	return out[:n]
}

const hexdigits = "0123456789abcdef"

func hexs(b []byte) string {
	if len(b) == 0 {
		return "-"
	}
	o := make([]byte, 2*len(b))
	for i, x := range b {
		o[2*i] = hexdigits[x>>4]
		o[2*i+1] = hexdigits[x&15]
	}
	return string(o)
}
func unhex(s string) []byte {
	if s == "-" || s == "" {
		return nil
	}
	o := make([]byte, len(s)/2)
	hv := func(c byte) byte {
		switch {
		case c >= '0' && c <= '9':
			return c - '0'
		case c >= 'a' && c <= 'f':
			return c - 'a' + 10
		default:
			return c - 'A' + 10
		}
	}
	for i := range o {
		o[i] = hv(s[2*i])<<4 | hv(s[2*i+1])
	}
	return o
}
