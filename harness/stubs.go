package main

import "encoding/json"

func probe() bool {
	c := &WCase{Prop: "probe", Set: Setting{API: "flate", Level: 1}, Datas: []DataSpec{{Gen: "text", Seed: 1, N: 100000}}, Ops: []Op{{K: "w", N: 100000}, {K: "c"}}}
	d := c.datas()
	obs := RunW(c.Set, false, d, c.Ops, 0)
	if obs.Panic != "" {
		return false
	}
	o, k, p := fastInflate(obs.Bytes(0))
	return p == "" && k == "EOF" && len(o) == 100000
}

func replayOther(c *ctx, v Violation) {
	var rc RCase
	if err := json.Unmarshal(v.Case, &rc); err != nil || rc.Prop == "" {
		c.rep.Note("cannot replay this case")
		return
	}
	switch rc.Prop {
	case "C02":
		checkC02(c.rep, c.pool, &rc)
	case "C03", "C18":
		checkC03(c.rep, c.pool, &rc, rc.Cut >= 0 && len(rc.Stream.Flip) == 0 && len(rc.Stream.Subst) == 0 && (rc.Stream.Synth == nil || rc.Stream.Synth.Fault == ""))
	case "C04":
		checkC04(c.rep, c.pool, &rc)
	case "C05":
		checkC05(c.rep, c.pool, &rc)
	case "C11":
		checkC11(c.rep, c.pool, &rc)
	case "C13":
		checkC13(c.rep, c.pool, &rc)
	case "C15":
		checkC15(c.rep, c.pool, &rc)
	default:
		replayContainer(c, v)
	}
}

func replayContainer(c *ctx, v Violation) {
	var cc CCase
	if err := json.Unmarshal(v.Case, &cc); err != nil || cc.Prop == "" {
		c.rep.Note("cannot replay this case")
		return
	}
	switch cc.Prop {
	case "C06":
		checkC06Reset(c.rep, c.pool, &cc)
	case "C07":
		checkC07(c.rep, c.pool, &cc)
	case "C08":
		checkC08(c.rep, c.pool, &cc)
	}
}

// checkHistoryAPI is checkHistory for flate, and the container-aware variant for gzip/zlib
func checkHistoryAPI(rep *Report, pool *DriverPool, c *WCase) {
	if c.Set.API == "flate" {
		checkHistory(rep, pool, c)
		return
	}
	datas := c.datas()
	var dict []byte
	if c.Set.Dict != nil {
		dict = c.Set.Dict.Generate()
	}
	obs := RunW(c.Set, false, datas, c.Ops, 0)
	rep.Eval(c.Set.String()+"|"+c.Datas[0].String()+"|"+opsString(c.Ops), c.sample())
	rep.Count("setting:" + c.Set.String())
	if obs.Panic != "" {
		rep.Violate("panic", "", obs.Panic, c)
		return
	}
	if ok, i := allNil(obs.Res); !ok {
		rep.Violate("unexpected-error", "", "op "+c.Ops[i].K+" returned "+obs.Res[i].Err, c)
		return
	}
	data := written(datas, c.Ops)[0]
	got, kind := decodeContainer(c.Set, obs.Bytes(0), dict)
	if kind != "EOF" || string(got) != string(data) {
		rep.Violate("stream-after-flush", "", "complete container does not decode to the data: "+kind, c)
	}
	checkFlushPrefixes(rep, pool, c, datas, dict, specAffordable(c.Set, c.Datas[0]))
}
