package main

import "fmt"

// Synthesis of DEFLATE streams block by block, independent of any compressor: stored blocks at
// any bit offset, fixed blocks, dynamic blocks with arbitrary (complete or incomplete) code
// shapes and arbitrary run-length coding of the header, plus one injected fault per family.

type bitW struct {
	buf []byte
	acc uint64
	n   uint
}

func (w *bitW) bits(v uint32, n uint) {
	for n > 0 {
		k := n
		if k > 16 {
			k = 16
		}
		w.acc |= uint64(v&(1<<k-1)) << w.n
		w.n += k
		v >>= k
		n -= k
		for w.n >= 8 {
			w.buf = append(w.buf, byte(w.acc))
			w.acc >>= 8
			w.n -= 8
		}
	}
}

// code writes a Huffman code (value c of length n), most significant bit first
func (w *bitW) code(c uint32, n uint) {
	var r uint32
	for i := uint(0); i < n; i++ {
		r |= (c >> i & 1) << (n - 1 - i)
	}
	w.bits(r, n)
}
func (w *bitW) align() {
	if w.n > 0 {
		w.bits(0, 8-w.n)
	}
}
func (w *bitW) bitLen() int { return len(w.buf)*8 + int(w.n) }
func (w *bitW) bytes() []byte {
	out := append([]byte(nil), w.buf...)
	if w.n > 0 {
		out = append(out, byte(w.acc))
	}
	return out
}

var lenBase = []int{3, 4, 5, 6, 7, 8, 9, 10, 11, 13, 15, 17, 19, 23, 27, 31, 35, 43, 51, 59, 67, 83, 99, 115, 131, 163, 195, 227, 258}
var lenExtra = []uint{0, 0, 0, 0, 0, 0, 0, 0, 1, 1, 1, 1, 2, 2, 2, 2, 3, 3, 3, 3, 4, 4, 4, 4, 5, 5, 5, 5, 0}
var distBase = []int{1, 2, 3, 4, 5, 7, 9, 13, 17, 25, 33, 49, 65, 97, 129, 193, 257, 385, 513, 769, 1025, 1537, 2049, 3073, 4097, 6145, 8193, 12289, 16385, 24577}
var distExtra = []uint{0, 0, 0, 0, 1, 1, 2, 2, 3, 3, 4, 4, 5, 5, 6, 6, 7, 7, 8, 8, 9, 9, 10, 10, 11, 11, 12, 12, 13, 13}

// tok: literal (Len == 0) or match
type tok struct {
	Lit  byte
	Len  int
	Dist int
	Alt  bool // encode length 258 as symbol 284 + extra 31
}

func lenSym(l int, alt bool) (sym int, extra uint32, nb uint) {
	if l == 258 && alt {
		return 284, 31, 5
	}
	for i := len(lenBase) - 1; i >= 0; i-- {
		if l >= lenBase[i] {
			return 257 + i, uint32(l - lenBase[i]), lenExtra[i]
		}
	}
	panic("len")
}
func distSym(d int) (sym int, extra uint32, nb uint) {
	for i := len(distBase) - 1; i >= 0; i-- {
		if d >= distBase[i] {
			return i, uint32(d - distBase[i]), distExtra[i]
		}
	}
	panic("dist")
}

// canonical codes (RFC 1951 3.2.2) for a length vector
func canonCodes(lens []int) []uint32 {
	var blCount [17]int
	for _, l := range lens {
		blCount[l]++
	}
	blCount[0] = 0
	var next [17]uint32
	code := uint32(0)
	for b := 1; b <= 16; b++ {
		code = (code + uint32(blCount[b-1])) << 1
		next[b] = code
	}
	out := make([]uint32, len(lens))
	for i, l := range lens {
		if l != 0 {
			out[i] = next[l]
			next[l]++
		}
	}
	return out
}

// randDepths returns k leaf depths (Kraft-complete, each <= maxLen) with a shape chosen by style:
// 0 balanced, 1 chain (1,2,3,...,maxLen...), 2 random splits, 3 deep-then-bushy.
func randDepths(r *Rng, k, maxLen, style int) []int {
	if k == 1 {
		return []int{1}
	}
	d := []int{1, 1}
	for len(d) < k {
		var i int
		switch style {
		case 0: // split the shallowest
			i = 0
			for j := range d {
				if d[j] < d[i] {
					i = j
				}
			}
		case 1: // split the deepest that can still be split
			i = -1
			for j := range d {
				if d[j] < maxLen && (i < 0 || d[j] > d[i]) {
					i = j
				}
			}
		default:
			i = r.Intn(len(d))
			if style == 3 && len(d) < maxLen {
				i = len(d) - 1
			}
		}
		if i < 0 || d[i] >= maxLen {
			// pick any splittable leaf
			i = -1
			for j := range d {
				if d[j] < maxLen {
					i = j
					break
				}
			}
			if i < 0 {
				panic("cannot build code")
			}
		}
		d[i]++
		d = append(d, d[i])
	}
	return d
}

// codeFor builds a length vector over nsyms symbols giving a code to every used symbol.
// extraSyms unused symbols also receive codes; with hole=true one more leaf is left unassigned
// (an incomplete code) and its bit pattern is returned.
func codeFor(r *Rng, nsyms int, used []bool, maxLen, style, extraSyms int, hole bool) (lens []int, holeCode uint32, holeLen int) {
	var syms []int
	for s := 0; s < nsyms; s++ {
		if used[s] {
			syms = append(syms, s)
		}
	}
	for tries := 0; extraSyms > 0 && tries < 1000; tries++ {
		s := r.Intn(nsyms)
		if !used[s] && !contains(syms, s) {
			syms = append(syms, s)
			extraSyms--
		}
	}
	k := len(syms)
	if hole {
		k++
	}
	if k == 0 {
		return make([]int, nsyms), 0, 0
	}
	for 1<<uint(maxLen) < k {
		panic("too many symbols")
	}
	d := randDepths(r, k, maxLen, style)
	// shuffle depths
	for i := len(d) - 1; i > 0; i-- {
		j := r.Intn(i + 1)
		d[i], d[j] = d[j], d[i]
	}
	lens = make([]int, nsyms)
	for i, s := range syms {
		lens[s] = d[i]
	}
	if hole {
		// Without the phantom leaf the code is incomplete.  Canonical assignment packs the codes
		// from the bottom of the code space, so the all-ones pattern of the maximum length is
		// never assigned.
		for _, l := range lens {
			if l > holeLen {
				holeLen = l
			}
		}
		if holeLen == 0 {
			holeLen = 1
		}
		holeCode = 1<<uint(holeLen) - 1
	}
	return lens, holeCode, holeLen
}

func contains(a []int, x int) bool {
	for _, y := range a {
		if y == x {
			return true
		}
	}
	return false
}

var clOrder = []int{16, 17, 18, 0, 8, 7, 9, 6, 10, 5, 11, 4, 12, 3, 13, 2, 14, 1, 15}

type clSym struct {
	sym   int
	extra uint32
	nb    uint
}

// rleLens run-length codes the concatenated lit/len + dist lengths.  mode: 0 none (plain
// lengths), 1 greedy runs (may cross the literal/distance boundary), 2 random mix.
func rleLens(r *Rng, all []int, mode int) []clSym {
	var out []clSym
	i := 0
	for i < len(all) {
		v := all[i]
		run := 1
		for i+run < len(all) && all[i+run] == v {
			run++
		}
		use := mode == 1 || (mode == 2 && r.Bool()) || mode == 3
		if mode == 3 && v == 0 && run >= 4 && r.Intn(3) != 0 {
			// legal but unusual: part of a zero run as 0 / 17 / 18, then "repeat previous" (16) on a zero
			rep := r.Range(3, min2(6, run-1))
			k := run
			if k > 138+rep {
				k = 138 + rep // symbol 18 covers at most 138 zeros
			}
			head := k - rep
			switch {
			case head >= 11:
				out = append(out, clSym{18, uint32(head - 11), 7})
			case head >= 3:
				out = append(out, clSym{17, uint32(head - 3), 3})
			default:
				for j := 0; j < head; j++ {
					out = append(out, clSym{0, 0, 0})
				}
			}
			out = append(out, clSym{16, uint32(rep - 3), 2})
			i += k
			continue
		}
		if use && v == 0 && run >= 3 {
			n := run
			if n > 138 {
				n = 138
			}
			if mode == 2 {
				n = r.Range(3, n)
			}
			if n <= 10 {
				out = append(out, clSym{17, uint32(n - 3), 3})
			} else {
				out = append(out, clSym{18, uint32(n - 11), 7})
			}
			i += n
			continue
		}
		if use && i > 0 && all[i-1] == v && run >= 3 {
			n := run
			if n > 6 {
				n = 6
			}
			if mode == 2 {
				n = r.Range(3, n)
			}
			out = append(out, clSym{16, uint32(n - 3), 2})
			i += n
			continue
		}
		out = append(out, clSym{v, 0, 0})
		i++
	}
	return out
}

// dynHeader writes a dynamic block header for the given lengths. fault selects a header fault.
func dynHeader(r *Rng, w *bitW, final bool, litLens, distLens []int, rleMode, clStyle int, fault string) {
	nlit := 286
	for nlit > 257 && litLens[nlit-1] == 0 {
		nlit--
	}
	if r.Intn(4) == 0 {
		nlit = r.Range(nlit, 286) // trailing zero lengths are legal
	}
	ndist := 30
	for ndist > 1 && distLens[ndist-1] == 0 {
		ndist--
	}
	if r.Intn(4) == 0 {
		ndist = r.Range(ndist, 30)
	}
	all := append(append([]int{}, litLens[:nlit]...), distLens[:ndist]...)
	syms := rleLens(r, all, rleMode)
	if fault == "run-16-at-dist-start" {
		// all literal/length lengths spelled out (the last one is non-zero), a small declared distance
		// count, and a "repeat previous" run that starts on the first distance length and is longer
		// than the declared count
		for nlit > 257 && litLens[nlit-1] == 0 {
			nlit--
		}
		ndist = r.Range(1, 5)
		syms = rleLens(r, litLens[:nlit], 0)
		n := r.Range(ndist+1, 6)
		if n < 3 {
			n = 3
		}
		syms = append(syms, clSym{16, uint32(n - 3), 2})
	}
	switch fault {
	case "repeat-first":
		syms = append([]clSym{{16, uint32(r.Intn(4)), 2}}, syms...)
	case "run-past-count":
		syms = append(syms, clSym{18, uint32(r.Intn(100)), 7})
	case "run-past-count-16":
		syms = append(syms, clSym{16, uint32(r.Intn(4)), 2})
	}
	used := make([]bool, 19)
	for _, s := range syms {
		used[s.sym] = true
	}
	clLens, _, _ := codeFor(r, 19, used, 7, clStyle, r.Intn(3), false)
	if fault == "cl-oversubscribed" {
		for s := 0; s < 19; s++ {
			if clLens[s] > 1 {
				clLens[s]--
				break
			}
		}
	}
	if fault == "cl-oversubscribed-2x" {
		// grossly over-subscribed (Kraft sum >= 2): four code-length codes of one bit
		n := 0
		for s := 0; s < 19 && n < 4; s++ {
			if clLens[s] > 0 {
				clLens[s] = 1
				n++
			}
		}
		for s := 0; s < 19 && n < 4; s++ {
			if clLens[s] == 0 {
				clLens[s] = 1
				n++
			}
		}
	}
	clCodes := canonCodes(clLens)
	hclen := 19
	for hclen > 4 && clLens[clOrder[hclen-1]] == 0 {
		hclen--
	}
	if final {
		w.bits(1, 1)
	} else {
		w.bits(0, 1)
	}
	w.bits(2, 2)
	w.bits(uint32(nlit-257), 5)
	w.bits(uint32(ndist-1), 5)
	w.bits(uint32(hclen-4), 4)
	for i := 0; i < hclen; i++ {
		w.bits(uint32(clLens[clOrder[i]]), 3)
	}
	for _, s := range syms {
		w.code(clCodes[s.sym], uint(clLens[s.sym]))
		if s.nb > 0 {
			w.bits(s.extra, s.nb)
		}
	}
}

func writeTokens(w *bitW, toks []tok, litLens, distLens []int, eob bool) {
	lc := canonCodes(litLens)
	dc := canonCodes(distLens)
	for _, t := range toks {
		if t.Len == 0 {
			w.code(lc[t.Lit], uint(litLens[t.Lit]))
			continue
		}
		s, e, nb := lenSym(t.Len, t.Alt)
		w.code(lc[s], uint(litLens[s]))
		if nb > 0 {
			w.bits(e, nb)
		}
		ds, de, dnb := distSym(t.Dist)
		w.code(dc[ds], uint(distLens[ds]))
		if dnb > 0 {
			w.bits(de, dnb)
		}
	}
	if eob {
		w.code(lc[256], uint(litLens[256]))
	}
}

func fixedLens() ([]int, []int) {
	l := make([]int, 288)
	for i := range l {
		switch {
		case i < 144:
			l[i] = 8
		case i < 256:
			l[i] = 9
		case i < 280:
			l[i] = 7
		default:
			l[i] = 8
		}
	}
	d := make([]int, 32)
	for i := range d {
		d[i] = 5
	}
	return l, d
}

// genTokens appends tokens producing about n bytes to out (the decoded data so far) and returns them.
func genTokens(r *Rng, out *[]byte, n int, style int) []tok {
	var toks []tok
	target := len(*out) + n
	alpha := 1 + r.Intn(256)
	if style == 1 {
		alpha = 1 + r.Intn(4)
	}
	base := r.Intn(256)
	for len(*out) < target {
		cur := len(*out)
		if cur > 0 && r.Intn(3) != 0 {
			var l, d int
			switch r.Intn(8) {
			case 0:
				l = 258
			case 1:
				l = 3
			case 2:
				l = r.Range(3, 258)
			default:
				l = r.Range(3, 20)
			}
			switch r.Intn(8) {
			case 0:
				d = 1
			case 1:
				d = min2(cur, 32768)
			case 2:
				d = min2(cur, r.Pick([]int{2, 3, 4, 5, 7, 8, 9, 16, 24, 255, 256, 257, 4096, 32767}))
			default:
				d = 1 + r.Intn(min2(cur, 32768))
			}
			if d < 1 {
				d = 1
			}
			t := tok{Len: l, Dist: d, Alt: l == 258 && r.Intn(3) == 0}
			toks = append(toks, t)
			for i := 0; i < l; i++ {
				*out = append(*out, (*out)[len(*out)-d])
			}
		} else {
			b := byte(base + r.Intn(alpha))
			toks = append(toks, tok{Lit: b})
			*out = append(*out, b)
		}
	}
	return toks
}

func min2(a, b int) int {
	if a < b {
		return a
	}
	return b
}

// SynthSpec describes a synthesised stream.
type SynthSpec struct {
	Seed   uint64 `json:"seed"`
	Blocks int    `json:"blocks"`
	Size   int    `json:"size"`            // approximate decoded bytes per block
	Fault  string `json:"fault,omitempty"` // "" = valid stream
	FaultB int    `json:"fault_block,omitempty"`
	Incomp bool   `json:"incomplete,omitempty"` // allow incomplete (but unused-hole) codes: valid for a permissive inflater only
	Kinds  string `json:"kinds,omitempty"`      // subset of "sfd" (stored, fixed, dynamic); "" = all
}

var faultKinds = []string{"dist-too-far", "unassigned-lit", "unassigned-dist", "lit-oversubscribed", "dist-oversubscribed",
	"cl-oversubscribed", "no-eob-code", "repeat-first", "run-past-count", "run-past-count-16", "stored-nlen", "reserved-type",
	"sym-286", "dist-sym-30", "empty-dist-used", "missing-eob", "run-16-at-dist-start",
	"lit-oversubscribed-2x", "dist-oversubscribed-2x", "cl-oversubscribed-2x"}

// Synthesize returns the stream, the bytes it decodes to (up to the fault, if any), whether it is
// valid for a strict inflater (complete codes), and a short description of its shape.
func (sp SynthSpec) Synthesize() (stream []byte, data []byte, strict bool, shape string) {
	r := NewRng(sp.Seed ^ 0x5e17)
	w := &bitW{}
	strict = true
	var out []byte
	kinds := sp.Kinds
	if kinds == "" {
		kinds = "sfd"
	}
	if kinds == "E" || kinds == "L" {
		return sp.synthWindowEdge(r)
	}
	if kinds == "B" {
		return sp.synthEdgeEnd(r)
	}
	if kinds == "U" {
		return sp.synthUnits(r)
	}
	if kinds == "M" {
		return sp.synthManyLong(r)
	}
	if kinds == "H" {
		return sp.synthHole(r)
	}
	if kinds == "Z" {
		return sp.synthZeroRuns(r)
	}
	for b := 0; b < sp.Blocks; b++ {
		final := b == sp.Blocks-1
		fault := ""
		if sp.Fault != "" && b == sp.FaultB {
			fault = sp.Fault
		}
		kind := kinds[r.Intn(len(kinds))]
		switch fault {
		case "stored-nlen":
			kind = 's'
		case "sym-286", "dist-sym-30":
			kind = 'f'
		case "reserved-type":
			if final {
				w.bits(1, 1)
			} else {
				w.bits(0, 1)
			}
			w.bits(3, 2)
			w.bits(uint32(r.Intn(1<<16)), 16)
			shape += "R"
			return w.bytes(), out, false, shape
		case "":
		default:
			kind = 'd'
		}
		n := sp.Size
		if r.Intn(5) == 0 {
			n = r.Intn(4)
		}
		switch kind {
		case 's':
			if n > 65535 {
				n = 65535
			}
			if r.Intn(40) == 0 {
				n = 65535
			}
			if final {
				w.bits(1, 1)
			} else {
				w.bits(0, 1)
			}
			w.bits(0, 2)
			w.align()
			w.bits(uint32(n), 16)
			if fault == "stored-nlen" {
				w.bits(uint32(^n&0xffff)^uint32(1<<uint(r.Intn(16))), 16)
				shape += "S!"
				return w.bytes(), out, false, shape
			}
			w.bits(uint32(^n&0xffff), 16)
			d := r.Bytes(n)
			w.buf = append(w.buf, d...)
			out = append(out, d...)
			shape += "S"
		case 'f':
			toks := genTokens(r, &out, n, r.Intn(3))
			ll, dl := fixedLens()
			if final {
				w.bits(1, 1)
			} else {
				w.bits(0, 1)
			}
			w.bits(1, 2)
			if fault == "sym-286" || fault == "dist-sym-30" {
				cut := r.Intn(len(toks) + 1)
				pre := toks[:cut]
				out = out[:len(out)-decodedLen(toks[cut:])]
				writeTokens(w, pre, ll, dl, false)
				lc := canonCodes(ll)
				if fault == "sym-286" {
					s := 286 + r.Intn(2)
					w.code(lc[s], uint(ll[s]))
				} else {
					w.code(lc[260], uint(ll[260])) // length 6
					dc := canonCodes(dl)
					s := 30 + r.Intn(2)
					w.code(dc[s], 5)
				}
				w.bits(uint32(r.Intn(1<<16)), 16)
				w.bits(uint32(r.Intn(1<<16)), 16)
				shape += "F!"
				return w.bytes(), out, false, shape
			}
			writeTokens(w, toks, ll, dl, true)
			shape += "F"
		case 'd':
			style := r.Intn(4)
			before := len(out)
			toks := genTokens(r, &out, n, style)
			usedL := make([]bool, 286)
			usedD := make([]bool, 30)
			usedL[256] = true
			for _, t := range toks {
				if t.Len == 0 {
					usedL[t.Lit] = true
				} else {
					s, _, _ := lenSym(t.Len, t.Alt)
					usedL[s] = true
					ds, _, _ := distSym(t.Dist)
					usedD[ds] = true
				}
			}
			holeL := fault == "unassigned-lit" || (sp.Incomp && r.Intn(3) == 0)
			holeD := fault == "unassigned-dist" || (sp.Incomp && r.Intn(3) == 0)
			if holeL || holeD {
				strict = false
			}
			litLens, hcL, hlL := codeFor(r, 286, usedL, 15, r.Intn(4), r.Intn(4)*r.Intn(10), holeL)
			nd := 0
			for _, u := range usedD {
				if u {
					nd++
				}
			}
			var distLens []int
			var hcD uint32
			var hlD int
			if nd == 0 && !holeD && r.Intn(2) == 0 {
				// no distance codes at all (one zero length) or a single unused code
				distLens = make([]int, 30)
				if r.Bool() {
					distLens[r.Intn(30)] = 1
				}
			} else {
				distLens, hcD, hlD = codeFor(r, 30, usedD, 15, r.Intn(4), r.Intn(3), holeD)
				if nd+btoi(holeD) == 1 && !holeD {
					// single code of length 1: legal degenerate tree
				}
			}
			switch fault {
			case "lit-oversubscribed":
				for tries := 0; tries < 1000; tries++ {
					s := r.Intn(286)
					if litLens[s] > 1 {
						litLens[s]--
						break
					}
				}
			case "dist-oversubscribed":
				ok := false
				for s := 0; s < 30; s++ {
					if distLens[s] > 1 {
						distLens[s]--
						ok = true
						break
					}
				}
				if !ok {
					distLens = []int{1, 1, 1, 0, 0, 0, 0, 0, 0, 0, 0, 0, 0, 0, 0, 0, 0, 0, 0, 0, 0, 0, 0, 0, 0, 0, 0, 0, 0, 0}
				}
			case "lit-oversubscribed-2x":
				// Kraft sum >= 2: four one-bit literal/length codes (a 16-bit running sum wraps on this)
				n := 0
				for s := 0; s < 286 && n < 4; s++ {
					if litLens[s] > 0 {
						litLens[s] = 1
						n++
					}
				}
			case "dist-oversubscribed-2x":
				distLens = make([]int, 30)
				for s := 0; s < 4+r.Intn(3); s++ {
					distLens[s] = 1
				}
			case "no-eob-code":
				litLens[256] = 0
			case "empty-dist-used":
				distLens = make([]int, 30)
			}
			hdrFault := ""
			switch fault {
			case "repeat-first", "run-past-count", "run-past-count-16", "cl-oversubscribed", "cl-oversubscribed-2x", "run-16-at-dist-start":
				hdrFault = fault
			}
			dynHeader(r, w, final, litLens, distLens, r.Intn(4), r.Intn(4), hdrFault)
			shape += "D"
			if fault != "" {
				shape += "!"
				out = out[:before]
				switch fault {
				case "unassigned-lit", "unassigned-dist", "dist-too-far", "empty-dist-used", "missing-eob":
					cut := r.Intn(len(toks) + 1)
					pre := toks[:cut]
					for _, t := range pre {
						if t.Len == 0 {
							out = append(out, t.Lit)
						} else {
							for i := 0; i < t.Len; i++ {
								out = append(out, out[len(out)-t.Dist])
							}
						}
					}
					if fault == "empty-dist-used" {
						// only literals can be written with an empty distance code
						var lits []tok
						out = out[:before]
						for _, t := range pre {
							if t.Len == 0 {
								lits = append(lits, t)
								out = append(out, t.Lit)
							}
						}
						pre = lits
					}
					lc := canonCodes(litLens)
					writeTokens(w, pre, litLens, distLensOr(distLens), false)
					switch fault {
					case "unassigned-lit":
						w.code(hcL, uint(hlL))
					case "unassigned-dist":
						s := firstUsedLen(litLens)
						if s < 0 {
							return w.bytes(), out, false, shape + "?"
						}
						w.code(lc[s], uint(litLens[s]))
						_, _, nb := lenSymOf(s)
						w.bits(0, nb)
						w.code(hcD, uint(hlD))
					case "dist-too-far":
						s := firstUsedLen(litLens)
						if s < 0 || nd == 0 {
							return w.bytes(), out, false, shape + "?"
						}
						w.code(lc[s], uint(litLens[s]))
						_, _, nb := lenSymOf(s)
						w.bits(0, nb)
						// a distance code whose base exceeds what has been produced
						dc := canonCodes(distLens)
						done := false
						for ds := 29; ds >= 0; ds-- {
							if distLens[ds] != 0 && distBase[ds]+(1<<distExtra[ds])-1 > len(out) {
								w.code(dc[ds], uint(distLens[ds]))
								w.bits(1<<distExtra[ds]-1, distExtra[ds])
								done = true
								break
							}
						}
						if !done {
							return w.bytes(), out, false, shape + "?"
						}
					case "empty-dist-used":
						s := firstUsedLen(litLens)
						if s < 0 {
							return w.bytes(), out, false, shape + "?"
						}
						w.code(lc[s], uint(litLens[s]))
						_, _, nb := lenSymOf(s)
						w.bits(0, nb)
						w.bits(uint32(r.Intn(1<<15)), 15)
					case "missing-eob":
						// the stream simply ends inside the block (with the final flag on some block): truncated
					}
				default:
					// header fault: append some plausible bits
				}
				w.bits(uint32(r.Intn(1<<16)), 16)
				w.bits(uint32(r.Intn(1<<16)), 16)
				w.bits(uint32(r.Intn(1<<16)), 16)
				return w.bytes(), out, false, shape
			}
			writeTokens(w, toks, litLens, distLensOr(distLens), true)
			if !isComplete(litLens, 15) || !(isComplete(distLens, 15) || single1(distLens) || allZero(distLens)) {
				strict = false
			}
		}
	}
	return w.bytes(), out, strict, shape
}

func btoi(b bool) int {
	if b {
		return 1
	}
	return 0
}
func distLensOr(d []int) []int { return d }
func decodedLen(ts []tok) int {
	n := 0
	for _, t := range ts {
		if t.Len == 0 {
			n++
		} else {
			n += t.Len
		}
	}
	return n
}
func firstUsedLen(litLens []int) int {
	for s := 257; s < 286; s++ {
		if litLens[s] != 0 {
			return s
		}
	}
	return -1
}
func lenSymOf(s int) (int, uint32, uint) { return s, 0, lenExtra[s-257] }
func isComplete(l []int, maxl int) bool {
	k := 0
	for _, x := range l {
		if x != 0 {
			k += 1 << uint(maxl-x)
		}
	}
	return k == 1<<uint(maxl)
}
func single1(l []int) bool {
	n := 0
	for _, x := range l {
		if x != 0 {
			if x != 1 {
				return false
			}
			n++
		}
	}
	return n == 1
}
func allZero(l []int) bool {
	for _, x := range l {
		if x != 0 {
			return false
		}
	}
	return true
}

// synthWindowEdge: the decoded output is brought to just below a multiple of the decoder's
// 64 KiB output window by stored blocks; then follow non-final dynamic blocks over a tiny
// alphabet (1-3 bit codes, so that lookup entries pack several symbols) mixing literals and
// short matches across the window edge; then an empty final block.  Delivered one byte at a
// time, every split point inside the symbols that straddle the edge is exercised.
func (sp SynthSpec) synthWindowEdge(r *Rng) (stream []byte, data []byte, strict bool, shape string) {
	w := &bitW{}
	strict = true
	var out []byte
	// the window fills inside the leading literals of the first dynamic block (a packed
	// "literal, literal, length" entry then straddles the edge) in most streams
	lead := r.Range(1, 2)
	target := 65536 + 32768*r.Intn(3) - r.Range(0, lead)
	if r.Intn(4) == 0 {
		target = 65536*(1+r.Intn(2)) - r.Range(0, 7)
	}
	// Kinds "L": the first match is of length 258 (or 257) and the packed entry "literal(s) +
	// that length" starts 258 bytes before the edge, so that the match ends just past it
	// (Kinds "L"; Kinds "E" draws exactly the random numbers it always drew)
	bigLen := 0
	if sp.Kinds == "L" {
		bigLen = 258 - r.Intn(6)/5
		target = 65536 + 32768*r.Intn(3) - bigLen - lead + r.Range(-1, 2)
	}
	for len(out) < target {
		n := target - len(out)
		if n > 65535 {
			n = 65535
		}
		w.bits(0, 1)
		w.bits(0, 2)
		w.align()
		w.bits(uint32(n), 16)
		w.bits(uint32(^n&0xffff), 16)
		d := make([]byte, n)
		for i := range d {
			d[i] = byte('a' + r.Intn(3))
		}
		w.buf = append(w.buf, d...)
		out = append(out, d...)
		shape += "S"
	}
	for b := r.Range(1, 3); b > 0; b-- {
		var toks []tok
		usedL := make([]bool, 286)
		usedD := make([]bool, 30)
		usedL[256] = true
		first := len(toks) == 0 && len(shape) > 0 && shape[len(shape)-1] == 'S'
		for k, k0 := r.Range(4, 40), 0; k > 0; k, k0 = k-1, k0+1 {
			isMatch := r.Intn(3) == 0
			if first && k0 < lead {
				isMatch = false
			}
			if first && k0 == lead {
				isMatch = true
			}
			if isMatch {
				t := tok{Len: r.Range(3, 6), Dist: r.Range(1, 4)}
				if first && k0 == lead && bigLen > 0 {
					t.Len = bigLen
				}
				toks = append(toks, t)
				for i := 0; i < t.Len; i++ {
					out = append(out, out[len(out)-t.Dist])
				}
				ls, _, _ := lenSym(t.Len, false)
				usedL[ls] = true
				ds, _, _ := distSym(t.Dist)
				usedD[ds] = true
			} else {
				c := byte('a' + r.Intn(3))
				toks = append(toks, tok{Lit: c})
				out = append(out, c)
				usedL[c] = true
			}
		}
		litLens, _, _ := codeFor(r, 286, usedL, 15, 0, 0, false)
		distLens, _, _ := codeFor(r, 30, usedD, 15, 0, 0, false)
		dynHeader(r, w, false, litLens, distLens, 1, 0, "")
		writeTokens(w, toks, litLens, distLens, true)
		shape += "D"
		if !isComplete(litLens, 15) || !(isComplete(distLens, 15) || single1(distLens) || allZero(distLens)) {
			strict = false
		}
	}
	w.bits(1, 1)
	w.bits(1, 2)
	w.bits(0, 7) // end-of-block code of the fixed code
	shape += "F"
	return w.bytes(), out, strict, shape
}

// synthManyLong: dynamic blocks whose distance code (and sometimes literal/length code) is
// INCOMPLETE with many long codes (11..15 bits) spread over many different short prefixes: the
// decoder's long-code sub-tables are as crowded as the format allows.  Only literals and the
// end-of-block code are used, so the stream is valid for a permissive inflater (unused codes);
// a decoder may reject the header as corrupt, but must not panic or fabricate data.
func (sp SynthSpec) synthManyLong(r *Rng) (stream []byte, data []byte, strict bool, shape string) {
	w := &bitW{}
	var out []byte
	nb := 1 + r.Intn(3)
	for b := 0; b < nb; b++ {
		final := b == nb-1
		litLens := make([]int, 286)
		// a small complete literal code: 'a' and end-of-block (1 bit each), or 4 symbols of 2 bits
		if r.Bool() {
			litLens['a'], litLens[256] = 1, 1
		} else {
			litLens['a'], litLens['b'], litLens['c'], litLens[256] = 2, 2, 2, 2
		}
		if r.Intn(4) == 0 {
			// incomplete literal/length code with many long codes as well
			for i := range litLens {
				litLens[i] = 0
			}
			litLens['a'], litLens[256] = 2, 2
			for k := r.Range(20, 120); k > 0; k-- {
				litLens[r.Intn(286)] = r.Range(13, 15)
			}
			litLens['a'], litLens[256] = 2, 2
		}
		distLens := make([]int, 30)
		nd := r.Range(8, 30)
		for i := 0; i < nd; i++ {
			distLens[i] = r.Range(11, 15)
		}
		if r.Intn(3) == 0 {
			for i := 0; i < nd; i++ {
				distLens[i] = 15
			}
		}
		dynHeader(r, w, final, litLens, distLens, r.Intn(3), 0, "")
		var toks []tok
		for k := r.Intn(30); k > 0; k-- {
			toks = append(toks, tok{Lit: 'a'})
			out = append(out, 'a')
		}
		writeTokens(w, toks, litLens, distLens, true)
		shape += "M"
	}
	return w.bytes(), out, false, shape
}

// synthHole: a literal/length code with two 13-bit codes 'Y' and 'Z' sharing one 12-bit prefix (one
// long-code group).  Block A uses the complete code and emits 'Z'; block B uses the same code WITHOUT
// 'Z' (an incomplete code: Z's former code word is unassigned) and emits exactly that code word,
// followed by the end-of-block code.  A conforming inflater reports corrupt input at the hole; a
// decoder whose long-code table keeps entries of an earlier table decodes a stale 'Z'.
// Size selects what is produced: 0 = A (non-final) then B (final) in one stream; 1 = A only;
// 2 = B only (for Reader reuse: A, Reset, B).
func (sp SynthSpec) synthHole(r *Rng) (stream []byte, data []byte, strict bool, shape string) {
	w := &bitW{}
	var out []byte
	base := make([]int, 286)
	base['a'] = 1
	base[256] = 2
	for i := 0; i < 10; i++ {
		base['b'+i] = 3 + i // 3..12
	}
	first := 'Y' - r.Intn(20) // two symbols with 13-bit codes
	second := first + 1 + r.Intn(5)
	base[first], base[second] = 13, 13
	distLens := make([]int, 30)
	blockA := func(final bool) {
		dynHeader(r, w, final, base, distLens, r.Intn(2), 0, "")
		toks := []tok{{Lit: 'a'}, {Lit: byte(second)}, {Lit: byte(first)}, {Lit: 'b'}}
		for _, t := range toks {
			out = append(out, t.Lit)
		}
		writeTokens(w, toks, base, distLens, true)
		shape += "A"
	}
	blockB := func() {
		lensB := append([]int{}, base...)
		lensB[second] = 0
		dynHeader(r, w, true, lensB, distLens, r.Intn(2), 0, "")
		writeTokens(w, []tok{{Lit: 'a'}}, lensB, distLens, false)
		out = append(out, 'a')
		hole := canonCodes(base)[second]
		w.code(hole, 13)
		lc := canonCodes(lensB)
		w.code(lc[256], uint(lensB[256]))
		shape += "B!"
	}
	switch sp.Size {
	case 1:
		blockA(true)
		return w.bytes(), out, true, shape
	case 2:
		blockB()
		return w.bytes(), out, false, shape
	default:
		blockA(false)
		blockB()
		return w.bytes(), out, false, shape
	}
}

// synthZeroRuns: valid dynamic blocks whose literal/length code uses few, widely spaced symbols (so
// the header consists mostly of long zero runs: code-length symbol 18 with 7 extra bits, and 17), with
// a code-length code of 1..3 bit codes; only literals are emitted.
func (sp SynthSpec) synthZeroRuns(r *Rng) (stream []byte, data []byte, strict bool, shape string) {
	w := &bitW{}
	var out []byte
	strict = true
	for b := 0; b < sp.Blocks; b++ {
		final := b == sp.Blocks-1
		litLens := make([]int, 286)
		syms := []int{r.Intn(40), 60 + r.Intn(60), 140 + r.Intn(100)}
		// a complete code over these three literals and the end-of-block code: 2,2,2,2 or 1,2,3,3
		if r.Bool() {
			litLens[syms[0]], litLens[syms[1]], litLens[syms[2]], litLens[256] = 2, 2, 2, 2
		} else {
			litLens[syms[0]], litLens[syms[1]], litLens[syms[2]], litLens[256] = 1, 2, 3, 3
		}
		distLens := make([]int, 30)
		dynHeader(r, w, final, litLens, distLens, 1, 0, "")
		var toks []tok
		for k := sp.Size; k > 0; k-- {
			c := byte(syms[r.Intn(3)])
			toks = append(toks, tok{Lit: c})
			out = append(out, c)
		}
		writeTokens(w, toks, litLens, distLens, true)
		shape += "Z"
	}
	return w.bytes(), out, strict, shape
}

// synthEdgeEnd: stored blocks bring the output to just below a multiple of the decoder's output
// window (65536 + 32768k); then ONE short dynamic block over a tiny alphabet (1-2 bit codes, so that
// its last literals and the end-of-block code share one packed lookup entry) ENDS exactly at the
// edge, one byte before it, or one or two bytes after it.  Size&1 == 1: that block is the final
// block (packed entries are then used only when enough input is buffered behind it: callers add a
// long suffix); otherwise one more small dynamic block and an empty final fixed block follow.
func (sp SynthSpec) synthEdgeEnd(r *Rng) (stream []byte, data []byte, strict bool, shape string) {
	w := &bitW{}
	strict = true
	var out []byte
	edge := 65536 + 32768*r.Intn(3)
	nl := r.Range(1, 6)
	end := edge + r.Range(-1, 2)
	target := end - nl
	for len(out) < target {
		n := target - len(out)
		if n > 65535 {
			n = 65535
		}
		w.bits(0, 1)
		w.bits(0, 2)
		w.align()
		w.bits(uint32(n), 16)
		w.bits(uint32(^n&0xffff), 16)
		d := make([]byte, n)
		for i := range d {
			d[i] = byte('a' + r.Intn(3))
		}
		w.buf = append(w.buf, d...)
		out = append(out, d...)
		shape += "S"
	}
	final := sp.Size&1 == 1
	blocks := 1
	if !final {
		blocks = 2
	}
	for b := 0; b < blocks; b++ {
		var toks []tok
		usedL := make([]bool, 286)
		usedD := make([]bool, 30)
		usedL[256] = true
		n := nl
		if b > 0 {
			n = r.Range(1, 5)
		}
		for k := 0; k < n; k++ {
			c := byte('a' + r.Intn(2))
			toks = append(toks, tok{Lit: c})
			out = append(out, c)
			usedL[c] = true
		}
		litLens, _, _ := codeFor(r, 286, usedL, 15, 0, 0, false)
		distLens, _, _ := codeFor(r, 30, usedD, 15, 0, 0, false)
		dynHeader(r, w, final && b == blocks-1, litLens, distLens, 1, 0, "")
		writeTokens(w, toks, litLens, distLens, true)
		shape += "D"
		if !isComplete(litLens, 15) || !(isComplete(distLens, 15) || single1(distLens) || allZero(distLens)) {
			strict = false
		}
	}
	if !final {
		w.bits(1, 1)
		w.bits(1, 2)
		w.bits(0, 7)
		shape += "F"
	}
	return w.bytes(), out, strict, fmt.Sprintf("%s/end%+d", shape, end-edge)
}

// synthUnits: one long non-final dynamic block made of units <literal><match of length 258, distance
// 1> (259 equal bytes each) after p leading literals, running across the edge of the decoder's first
// output window: with short codes the lookup entry "literal + length 258" is packed, and for
// p = 10 +- 1 such an entry starts 258 bytes before the edge and ends one byte past it.  The
// assembly decode loops stay in their fast path all the way to the edge.  Then two literals, the
// end-of-block code and an empty final block.
func (sp SynthSpec) synthUnits(r *Rng) (stream []byte, data []byte, strict bool, shape string) {
	w := &bitW{}
	var out []byte
	var toks []tok
	usedL := make([]bool, 286)
	usedD := make([]bool, 30)
	usedL[256], usedL[285], usedD[0] = true, true, true
	p := r.Pick([]int{9, 10, 11, 10, 9, 11, r.Intn(259)})
	if sp.Kinds == "U" && sp.Size > 0 {
		p = sp.Size
	}
	lit := func() {
		c := byte('a' + r.Intn(3))
		toks = append(toks, tok{Lit: c})
		out = append(out, c)
		usedL[c] = true
	}
	for i := 0; i < p; i++ {
		lit()
	}
	// the unit that crosses the edge is the last one in three streams out of four (the input then ends
	// a few bytes after it)
	units := (65535-p)/259 + 1
	if r.Intn(4) == 0 {
		units += r.Range(1, 3)
	}
	// the first unit repeats its literal (distance 1); the others copy the run of the unit before
	// (distance 259: the wide-copy path of the decode loops) in two streams out of three
	far := r.Intn(3) != 0
	for u := 0; u < units; u++ {
		lit()
		d := 1
		if far && u > 0 {
			d = 259
			usedD[16] = true
		}
		toks = append(toks, tok{Len: 258, Dist: d})
		for i := 0; i < 258; i++ {
			out = append(out, out[len(out)-d])
		}
	}
	// a varying number of trailing literals: the number of unread input bytes at the moment the last
	// unit is decoded sweeps across the thresholds of the fast loops
	for t := r.Intn(41); t > 0; t-- {
		lit()
	}
	litLens, _, _ := codeFor(r, 286, usedL, 15, 0, 0, false)
	distLens, _, _ := codeFor(r, 30, usedD, 15, 0, 0, false)
	dynHeader(r, w, false, litLens, distLens, 1, 0, "")
	writeTokens(w, toks, litLens, distLens, true)
	strict = isComplete(litLens, 15) && (isComplete(distLens, 15) || single1(distLens) || allZero(distLens))
	// what a Flush leaves behind (an empty stored block) in three streams out of four, so that some
	// input is still unread when the last unit is decoded
	sync := r.Intn(4) != 0
	if sync {
		w.bits(0, 1)
		w.bits(0, 2)
		w.align()
		w.bits(0, 16)
		w.bits(0xffff, 16)
	}
	w.bits(1, 1)
	w.bits(1, 2)
	w.bits(0, 7)
	return w.bytes(), out, strict, fmt.Sprintf("U%d/%d/%v", p, units, sync)
}
