package main

import (
	"encoding/json"
	"flag"
	"fmt"
	"os"
	"runtime"
	"sync"
	"sync/atomic"
	"time"

	"github.com/intel/fastgo/compress/flate"
)

var buildName = "asm" // overwritten by -ldflags for the noasmtest build

// -only <case id>: run just that case of the suite and attach the case and its observations to the report
var onlyID string
var onlyCase json.RawMessage

func VerifLevel() int { return verifArchLevel() }

type ctx struct {
	rep   *Report
	pool  *DriverPool
	tier  string
	seed  uint64
	scale int // 1 quick, larger for thorough
}

func (c *ctx) n(quick int) int { return quick * c.scale }

// parallel runs f over items on all available CPUs
func parallel(n int, f func(i int)) { parallelJ(n, nil, f) }

// parallelJ also journals the case each worker is busy with (VERIF_JOURNAL directory), so that
// after a crash of the whole process the orchestrator can name the cases that were in flight.
func parallelJ(n int, desc func(i int) interface{}, f func(i int)) {
	w := runtime.GOMAXPROCS(0)
	jdir := os.Getenv("VERIF_JOURNAL")
	var wg sync.WaitGroup
	ch := make(chan int, n)
	for i := 0; i < n; i++ {
		ch <- i
	}
	close(ch)
	for k := 0; k < w; k++ {
		wg.Add(1)
		go func(k int) {
			defer wg.Done()
			jf := ""
			if jdir != "" && desc != nil {
				jf = fmt.Sprintf("%s/w%d.json", jdir, k)
			}
			for i := range ch {
				if onlyID != "" {
					if desc == nil {
						continue
					}
					b, _ := json.Marshal(desc(i))
					var idOnly struct {
						ID string `json:"id"`
					}
					json.Unmarshal(b, &idOnly)
					if idOnly.ID != onlyID {
						continue
					}
					onlyCase = b
				}
				if jf != "" {
					b, _ := json.Marshal(desc(i))
					os.WriteFile(jf, b, 0o644)
				}
				f(i)
			}
			if jf != "" {
				os.Remove(jf)
			}
		}(k)
	}
	wg.Wait()
}

var _ = flate.NoCompression

func main() {
	prop := flag.String("prop", "", "property id (C01..C20), 'probe', or 'replay'")
	tier := flag.String("tier", "quick", "quick|thorough")
	seed := flag.Uint64("seed", 1, "seed")
	out := flag.String("out", "", "report path")
	driver := flag.String("driver", "", "path of the extracted-model driver")
	ndrv := flag.Int("drivers", 3, "driver processes")
	replay := flag.String("replay", "", "replay file (violation json)")
	flag.StringVar(&onlyID, "only", "", "run only the case with this id")
	flag.Parse()

	if *prop == "dump" {
		dumpCase(*replay)
		return
	}
	if *prop == "probe" {
		fmt.Printf("{\"arch_level\": %d, \"ok\": %v}\n", VerifLevel(), probe())
		return
	}
	var pool *DriverPool
	if *driver != "" {
		var err error
		pool, err = NewDriverPool(*driver, *ndrv)
		if err != nil {
			fmt.Fprintln(os.Stderr, "cannot start driver:", err)
			os.Exit(2)
		}
		defer pool.Close()
	}
	start := time.Now()
	c := &ctx{tier: *tier, seed: *seed, scale: 1, pool: pool}
	modelTier = *tier
	if *tier == "thorough" {
		c.scale = 8
	}
	if *replay != "" {
		raw, err := os.ReadFile(*replay)
		if err != nil {
			fmt.Fprintln(os.Stderr, err)
			os.Exit(2)
		}
		var v Violation
		if err := json.Unmarshal(raw, &v); err != nil {
			fmt.Fprintln(os.Stderr, err)
			os.Exit(2)
		}
		c.rep = NewReport(v.Prop, "replay", *seed, VerifLevel(), buildName)
		replayCase(c, v)
	} else {
		c.rep = NewReport(*prop, *tier, *seed, VerifLevel(), buildName)
		f, ok := suites[*prop]
		if !ok {
			fmt.Fprintln(os.Stderr, "unknown property", *prop)
			os.Exit(2)
		}
		f(c)
	}
	if pool != nil {
		c.rep.SpecReqs = pool.Reqs
	}
	if n := atomic.LoadInt64(&synthSelfCheckFailed); n > 0 {
		c.rep.Note(fmt.Sprintf("stream synthesiser self-check: %d streams claimed strictly valid were not accepted by compress/flate and were replaced (generator defect, not a finding)", n))
		c.rep.Hist["synth-self-check-failed"] = int(n)
	}
	c.rep.WallS = time.Since(start).Seconds()
	if onlyID != "" {
		c.rep.OnlyCase = onlyCase
	}
	if *out != "" {
		if err := c.rep.Write(*out); err != nil {
			fmt.Fprintln(os.Stderr, err)
			os.Exit(2)
		}
	} else {
		b, _ := json.MarshalIndent(c.rep, "", " ")
		fmt.Println(string(b))
	}
}

var suites = map[string]func(*ctx){}

func init() {
	suites["C01"] = suiteC01
	suites["C09"] = suiteC09
	suites["C10"] = suiteC10
	suites["C12"] = suiteC12
	suites["C14"] = suiteC14
	suites["C16"] = suiteC16
	suites["C19"] = suiteC19
	suites["C20"] = suiteC20
}

// only oracles whose tag is in keep are reported for this property; the others belong to
// another property's check (the same run exercises several).
func filterViolations(rep *Report, keep func(oracle string) bool) {
	var out []Violation
	for _, v := range rep.Violations {
		if keep(v.Oracle) {
			out = append(out, v)
		}
	}
	rep.Violations = out
}

func isFlushOracle(o string) bool {
	return len(o) >= 5 && o[:5] == "flush"
}

func suiteC01(c *ctx) {
	c.rep.Rule = "writer histories (Writes in several partition styles, Flushes, one Close) over settings x data generators x sizes around buffer roll-over points; distinct = distinct (setting, generator, size, #ops); non-trivial = at least one byte written"
	r := NewRng(c.seed ^ 0xC01)
	var cases []*WCase
	for i := 0; i < c.n(170); i++ {
		s := pickSetting(r, []string{"flate"}, r.Intn(5) != 0)
		cs := genHistory(r, "C01", i, s, i%9 == 0, i%2 == 0)
		if i%10 == 3 && s.Accelerated() {
			// token-count limit of a block reached inside a long run
			n := r.Range(34000, 46000)
			if i%40 == 3 {
				n = r.Range(66500, 75000) // the assembly packs two literals per token: limit at 65536 literals
			}
			cs.Datas[0] = DataSpec{Gen: "tokedge", Seed: r.U64(), N: n}
			cs.Ops = append(partition(r, n, 0, s, false), Op{K: "c"})
			if len(cs.Ops) > 40 {
				cs.Ops = []Op{{K: "w", N: n}, {K: "c"}}
			}
		}
		cases = append(cases, cs)
	}
	cases = append(cases, tailCases(r, "C01", c.n(70))...)
	parallelJ(len(cases), func(i int) interface{} { return cases[i] }, func(i int) { checkHistory(c.rep, c.pool, cases[i]) })
	filterViolations(c.rep, func(o string) bool { return o != "window" && !isFlushOracle(o) })
}

// tailCases: short inputs whose last bytes repeat an earlier piece, at every accelerated setting: the
// match ends within the last 0..14 bytes of the match finder's input (its end-of-input exit paths) and
// its length symbol is the only one of its kind in the block.  One Write + Close, or Write, Flush,
// Write, Close with the repeat before the Flush.
func tailCases(r *Rng, prop string, n int) []*WCase {
	var out []*WCase
	sets := []Setting{{API: "flate", Level: 2}, {API: "flate", Level: -1}, {API: "flate", Level: 1}, {API: "flate", Level: 2, Win4K: true},
		{API: "flate", Level: 1, Win4K: true}, {API: "flate", Level: -1, Win4K: true}, {API: "flate", Level: 2}}
	for i := 0; i < n; i++ {
		s := sets[i%len(sets)]
		m := r.Range(40, 400)
		d := DataSpec{Gen: "tailrep", Seed: r.U64(), N: m}
		ops := []Op{{K: "w", N: m}, {K: "c"}}
		if i%4 == 3 {
			d2 := 30
			d.N = m
			ops = []Op{{K: "w", N: m}, {K: "f"}, {K: "c"}}
			_ = d2
		}
		out = append(out, &WCase{Prop: prop, ID: fmt.Sprintf("%s-t%d", prop, i), Set: s, Datas: []DataSpec{d}, Ops: ops})
	}
	return out
}

func suiteC10(c *ctx) {
	c.rep.Rule = "writer histories with Flushes (first, repeated, with nothing pending, between data) for flate/gzip/zlib; every Flush prefix is decoded by compress/flate and by the reference inflater; distinct = distinct (setting, generator, size, #ops)"
	r := NewRng(c.seed ^ 0xC10)
	var cases []*WCase
	for i := 0; i < c.n(150); i++ {
		s := pickSetting(r, []string{"flate", "flate", "gzip", "zlib"}, r.Intn(4) != 0)
		if i%5 == 0 {
			s = Setting{API: "flate", Level: -2, Win4K: i%10 == 0}
		}
		cs := genHistory(r, "C10", i, s, false, true)
		// make sure there is at least one Flush, and some special shapes
		switch i % 6 {
		case 0:
			cs.Ops = append([]Op{{K: "f"}}, cs.Ops...)
		case 1:
			cs.Ops = append(cs.Ops[:len(cs.Ops)-1], Op{K: "f"}, Op{K: "f"}, Op{K: "c"})
		default:
			k := r.Intn(len(cs.Ops))
			cs.Ops = append(cs.Ops[:k], append([]Op{{K: "f"}}, cs.Ops[k:]...)...)
		}
		cases = append(cases, cs)
	}
	cases = append(cases, directedFlushCases(r, "C10", c.n(24))...)
	// Huffman-only: one data stream, every length in a window around the point where the encoded block
	// reaches the size of the packers' staging buffer (8176 bytes), then Flush: for one of these
	// lengths the buffer fills exactly on the block's last symbols
	{
		seed := r.U64()
		gen := r.PickS([]string{"rnd", "rnd", "uni6"})
		lo := 8100
		if gen == "uni6" {
			lo = 10800
		}
		for n := lo; n < lo+c.n(110); n++ {
			cases = append(cases, &WCase{Prop: "C10", ID: fmt.Sprintf("C10-h%d", n), Set: Setting{API: "flate", Level: -2}, Datas: []DataSpec{{Gen: gen, Seed: seed, N: n + 20}},
				Ops: []Op{{K: "w", N: n}, {K: "f"}, {K: "w", N: 20}, {K: "c"}}})
		}
	}
	parallelJ(len(cases), func(i int) interface{} { return cases[i] }, func(i int) { checkHistoryAPI(c.rep, c.pool, cases[i]) })
	filterViolations(c.rep, func(o string) bool {
		return isFlushOracle(o) || o == "panic" || o == "unexpected-error" || o == "stream-after-flush"
	})
}

// directedFlushCases: Flush (or Close) at the exact points where the writers' buffers turn over.
//  - dynamic levels: the total written fills the input buffer exactly (2W+258, then +W+258 per
//    slide) at the end of a Write and Flush/Close is the next call;
//  - dynamic levels, incompressible data: the pending length is such that the 32768-token block
//    limit falls on one of the last bytes handled by the flush tail of the match finder (lengths
//    around 32768 for the pure-Go finder, just below 65536 for the assembly finders);
//  - Huffman-only: Flush when the bytes written since the last Flush are a multiple of 65536.
func directedFlushCases(r *Rng, prop string, n int) []*WCase {
	var out []*WCase
	dyn := []Setting{{API: "flate", Level: 1}, {API: "flate", Level: 2}, {API: "flate", Level: -1}, {API: "flate", Level: 1, Win4K: true},
		{API: "flate", Level: 2, Win4K: true}, {API: "gzip", Level: 1}, {API: "zlib", Level: -1}}
	for i := 0; i < n; i++ {
		var s Setting
		var ops []Op
		var d DataSpec
		endOp := Op{K: "f"}
		if i%5 == 4 {
			endOp = Op{K: "c"}
		}
		switch i % 3 {
		case 0:
			s = dyn[r.Intn(len(dyn))]
			w := s.Window()
			tot := 2*w + 258 + (w+258)*r.Intn(3) + r.Pick([]int{0, 0, 0, -1, 1})
			d = DataSpec{Gen: r.PickS([]string{"text", "rnd", "uni3", "run"}), Seed: r.U64(), N: tot + 50}
			if r.Bool() {
				ops = []Op{{K: "w", N: tot}}
			} else {
				ops = []Op{{K: "w", N: tot - 7}, {K: "w", N: 7}}
			}
			ops = append(ops, endOp)
			if endOp.K == "f" {
				ops = append(ops, Op{K: "w", N: 50}, Op{K: "c"})
			}
		case 1:
			s = dyn[r.Intn(5)]
			base := 32764 + (i/3*5)%16
			if r.Bool() {
				base = 65516 + (i/3*7)%24
			}
			if s.Win4K && r.Bool() {
				base -= r.Intn(200)
			}
			d = DataSpec{Gen: "rnd", Seed: r.U64(), N: base + 40}
			ops = []Op{{K: "w", N: base}, endOp}
			if endOp.K == "f" {
				ops = append(ops, Op{K: "w", N: 40}, Op{K: "c"})
			}
		default:
			s = Setting{API: r.PickS([]string{"flate", "flate", "gzip"}), Level: -2}
			m := 65536 * (1 + r.Intn(2))
			d = DataSpec{Gen: r.PickS([]string{"text", "rnd", "uni3", "fib"}), Seed: r.U64(), N: 2*m + 30}
			ops = []Op{{K: "w", N: m}, {K: "f"}}
			if r.Bool() {
				ops = append(ops, Op{K: "w", N: m}, Op{K: "f"})
			}
			ops = append(ops, Op{K: "w", N: 30}, Op{K: "c"})
		}
		out = append(out, &WCase{Prop: prop, ID: fmt.Sprintf("%s-x%d", prop, i), Set: s, Datas: []DataSpec{d}, Ops: ops})
	}
	return out
}

func suiteC19(c *ctx) {
	c.rep.Rule = "writer histories on the 4 KiB-window and 32 KiB-window constructors with repeats planted at distances 4095..4097, 32767..32769, 1, 2 and beyond 64 KiB; the reference inflater reports the largest distance used; distinct = distinct (setting, generator, size, #ops)"
	r := NewRng(c.seed ^ 0xC19)
	var cases []*WCase
	kinds := []string{"plant4095", "plant4096", "plant4097", "plant32767", "plant32768", "plant32769", "plant1", "plant2", "plant70000", "per64", "per7", "run", "text", "uni2", "mix", "two"}
	for i := 0; i < c.n(150); i++ {
		s := accelSettings[r.Intn(len(accelSettings))]
		if s.Level == -2 {
			s.Level = 1
		}
		if i%3 != 0 {
			s.Win4K = true
		}
		cs := genHistory(r, "C19", i, s, i%4 == 0, i%3 == 0)
		n := cs.Datas[0].N
		if i%2 == 0 && n < 9000 {
			n = r.Range(9000, 80000)
		}
		k := kinds[r.Intn(len(kinds))]
		if (k == "text" || k == "mix" || k == "uni2") && !s.Win4K && n > 30000 {
			n = r.Range(5000, 30000)
		}
		cs.Datas[0] = DataSpec{Gen: k, Seed: r.U64(), N: n}
		cs.Ops = append(partition(r, n, 0, s, i%3 == 0), Op{K: "c"})
		if i%6 == 1 {
			// a reused writer: a first stream (closed, or abandoned), Reset, then the stream that is checked
			pre := []Op{{K: "w", N: r.Pick([]int{0, 100, 9000, 70000}), Src: 1}}
			if r.Bool() {
				pre = append(pre, Op{K: "c"})
			}
			cs.Datas = append(cs.Datas, DataSpec{Gen: "text", Seed: r.U64(), N: 70000})
			cs.Ops = append(append(pre, Op{K: "r"}), cs.Ops...)
		}
		cases = append(cases, cs)
	}
	parallelJ(len(cases), func(i int) interface{} { return cases[i] }, func(i int) { checkHistory(c.rep, c.pool, cases[i]) })
	filterViolations(c.rep, func(o string) bool { return o == "window" || o == "panic" })
}

func suiteC09(c *ctx) {
	c.rep.Rule = "pairs of partitions of the same data with the same Flush positions (one write, 1-byte writes, zero-length writes, cuts at roll-over points, random); distinct = distinct (setting, generator, size, #ops1, #ops2); a pair of identical partitions is trivial"
	r := NewRng(c.seed ^ 0xC09)
	var cases []*WCase
	for i := 0; i < c.n(260); i++ {
		if i%4 == 3 {
			cases = append(cases, genC09Directed(r, i))
			continue
		}
		cases = append(cases, genC09(r, i))
	}
	parallelJ(len(cases), func(i int) interface{} { return cases[i] }, func(i int) { checkC09(c.rep, c.pool, cases[i]) })
}

func suiteC12(c *ctx) {
	c.rep.Rule = "history h1 (data unflushed / flushed / closed / failed destination), Reset, history h2; compared byte for byte with h2 on a fresh writer; distinct = distinct (setting, generators, sizes, #ops, fault index)"
	r := NewRng(c.seed ^ 0xC12)
	var cases []*WCase
	for i := 0; i < c.n(260); i++ {
		cases = append(cases, genC12(r, i))
	}
	parallelJ(len(cases), func(i int) interface{} { return cases[i] }, func(i int) { checkC12(c.rep, c.pool, cases[i]) })
}

func suiteC14(c *ctx) {
	c.rep.Rule = "for each history, the destination is made to fail at call k for every k up to the fault-free call count (sampled above a cap, always including the first and last calls), followed by Write/Flush/Close in rotating order; distinct = distinct (setting, generator, size, #ops, k)"
	r := NewRng(c.seed ^ 0xC14)
	var cases []*WCase
	for i := 0; i < c.n(48); i++ {
		cases = append(cases, genC14(r, i))
	}
	rngs := make([]*Rng, len(cases))
	for i := range rngs {
		rngs[i] = NewRng(r.U64())
	}
	parallelJ(len(cases), func(i int) interface{} { return cases[i] }, func(i int) { checkC14(c.rep, c.pool, cases[i], rngs[i], 24) })
}

func suiteC16(c *ctx) {
	maxLen := 4
	if c.tier == "thorough" {
		maxLen = 5
	}
	c.rep.Rule = fmt.Sprintf("all call sequences up to length %d over {Write(0), Write(37), Write(70000), Flush, Close, Reset} on rotating settings, plus random sequences up to length 12, each run on fastgo and on the standard library; plus every constructor at levels -4..11; distinct = distinct (setting, sequence)", maxLen)
	r := NewRng(c.seed ^ 0xC16)
	seqs := genC16Exhaustive(maxLen)
	sets := []Setting{{API: "flate", Level: 1}, {API: "flate", Level: -2}, {API: "flate", Level: 2, Win4K: true}, {API: "gzip", Level: -1}, {API: "zlib", Level: 1},
		{API: "flate", Level: 6}, {API: "zlib", Level: -2}, {API: "gzip", Level: -2}, {API: "flate", Level: -2, Win4K: true}, {API: "flate", Level: 0, Win4K: true}}
	var cases []*WCase
	for i, ops := range seqs {
		for j := 0; j < 2; j++ {
			s := sets[(i*2+j)%len(sets)]
			if len(ops) <= 3 {
				s = sets[(i+j*5)%len(sets)]
			}
			cases = append(cases, &WCase{Prop: "C16", ID: fmt.Sprintf("C16-e%d-%d", i, j), Set: s, Datas: []DataSpec{{Gen: "text", Seed: uint64(i), N: 400000}}, Ops: ops})
		}
	}
	for i := 0; i < c.n(150); i++ {
		s := pickSetting(r, []string{"flate", "flate", "gzip", "zlib"}, r.Intn(3) != 0)
		var ops []Op
		for k := r.Range(5, 12); k > 0; k-- {
			o := c16Letters[r.Intn(len(c16Letters))]
			if o.K == "w" && o.N > 0 {
				o.N = pickSize(r, s, false)
			}
			ops = append(ops, o)
		}
		cases = append(cases, &WCase{Prop: "C16", ID: fmt.Sprintf("C16-r%d", i), Set: s, Datas: []DataSpec{{Gen: r.PickS([]string{"text", "uni3", "rnd", "per4"}), Seed: r.U64(), N: 800000}}, Ops: ops})
	}
	// Flush/Close at the exact points where the writers' buffers turn over
	cases = append(cases, directedFlushCases(r, "C16", c.n(24))...)
	parallelJ(len(cases), func(i int) interface{} { return cases[i] }, func(i int) { checkC16(c.rep, c.pool, cases[i]) })
	checkC16Levels(c.rep)
}

func suiteC20(c *ctx) {
	c.rep.Rule = "one Write + Close at accelerated settings: uniform / near-uniform / Fibonacci-skewed / random data against n + n/32 + 256; periodic data (period 1..64, random phase, n >= 64 KiB) against n/32 + 1200; distinct = distinct (setting, generator, seed, size)"
	r := NewRng(c.seed ^ 0xC20)
	var cases []*WCase
	var per []int
	for i := 0; i < c.n(220); i++ {
		s := accelSettings[r.Intn(len(accelSettings))]
		var d DataSpec
		p := 0
		if i%2 == 0 {
			if s.Level == -2 {
				s.Level = []int{1, 2, -1}[r.Intn(3)]
			}
			p = r.Range(1, 64)
			if i%8 == 0 {
				p = r.Pick([]int{1, 2, 3, 4, 5, 8, 64})
			}
			d = DataSpec{Gen: fmt.Sprintf("per%d", p), Seed: r.U64(), N: r.Range(65536, 300000)}
		} else {
			d = DataSpec{Gen: r.PickS([]string{"rnd", "uni8", "uni6", "uni4", "fib", "uni1", "two", "one", "text", "run", "rarerun", "deeprun", "deeprun"}), Seed: r.U64(), N: pickSize(r, s, true)}
			if d.Gen == "deeprun" {
				if s.Level == -2 {
					s.Level = []int{1, 2, -1}[r.Intn(3)]
				}
				d.N = r.Range(68000, 200000)
			}
		}
		wc := &WCase{Prop: "C20", ID: fmt.Sprintf("C20-%d", i), Set: s, Datas: []DataSpec{d}, Ops: []Op{{K: "w", N: d.N}, {K: "c"}}}
		if i%7 == 3 {
			// the same on a reused writer: an abandoned (unflushed, unclosed) or closed first stream, Reset
			wc.Datas = append(wc.Datas, DataSpec{Gen: r.PickS([]string{"text", "rnd", "uni3"}), Seed: r.U64(), N: 140000})
			if r.Bool() {
				// a small stream over a different alphabet after an abandoned stream that filled the
				// buffer without emitting a block (what is left behind must not shape the new codes)
				small := DataSpec{Gen: r.PickS([]string{"uni4", "uni6", "text", "rnd"}), Seed: r.U64(), N: r.Range(1500, 6000)}
				wc.Datas[0] = small
				wc.Ops = []Op{{K: "w", N: small.N}, {K: "c"}}
				p = 0
			}
			pre := []Op{{K: "w", N: r.Pick([]int{500, 8450, 9000, 65794, 70000, 140000}), Src: 1}}
			if r.Intn(3) == 0 {
				pre = append(pre, Op{K: "c"})
			}
			if i%14 == 3 {
				// abandoned first stream = one buffer fill of skewed/compressible data (pending tokens, no
				// block emitted yet), then random bytes
				wc.Datas[0] = DataSpec{Gen: "rnd", Seed: r.U64(), N: r.Range(1500, 6000)}
				wc.Ops = []Op{{K: "w", N: wc.Datas[0].N}, {K: "c"}}
				p = 0
				if s.Win4K {
					wc.Datas[1] = DataSpec{Gen: r.PickS([]string{"fib", "text"}), Seed: r.U64(), N: 9000}
					pre = []Op{{K: "w", N: r.Range(8450, 8700), Src: 1}}
				} else {
					wc.Datas[1] = DataSpec{Gen: "text", Seed: r.U64(), N: 70000}
					pre = []Op{{K: "w", N: r.Range(65794, 66500), Src: 1}}
				}
			}
			wc.Ops = append(append(pre, Op{K: "r"}), wc.Ops...)
		}
		cases = append(cases, wc)
		per = append(per, p)
	}
	for i := 0; i < c.n(16); i++ {
		// Fibonacci-weighted alphabets large enough (>= 17 symbols: n >= 4181) for the optimal code to be
		// deeper than 15 bits: the length-limiting path of the code generator
		s := []Setting{{API: "flate", Level: -2}, {API: "flate", Level: -2, Win4K: true}, {API: "flate", Level: 1}, {API: "flate", Level: 2}, {API: "gzip", Level: -2}, {API: "flate", Level: -1, Win4K: true}}[i%6]
		n := r.Pick([]int{30000, 65536, 70000, 131072, 200000})
		gen := "fib"
		if i%4 == 3 {
			gen = "dom50"
			n = r.Pick([]int{300000, 1000000})
			s = Setting{API: "flate", Level: -2, Win4K: i%8 == 7}
		}
		cases = append(cases, &WCase{Prop: "C20", ID: fmt.Sprintf("C20-f%d", i), Set: s, Datas: []DataSpec{{Gen: gen, Seed: r.U64(), N: n}}, Ops: []Op{{K: "w", N: n}, {K: "c"}}})
		per = append(per, 0)
	}
	parallelJ(len(cases), func(i int) interface{} { return cases[i] }, func(i int) { checkC20(c.rep, c.pool, cases[i], per[i]) })
}

func replayCase(c *ctx, v Violation) {
	var wc WCase
	if err := json.Unmarshal(v.Case, &wc); err == nil && wc.Prop != "" && len(wc.Ops) > 0 {
		switch wc.Prop {
		case "C01", "C19":
			checkHistory(c.rep, c.pool, &wc)
		case "C10":
			checkHistoryAPI(c.rep, c.pool, &wc)
		case "C09":
			checkC09(c.rep, c.pool, &wc)
		case "C12":
			checkC12(c.rep, c.pool, &wc)
		case "C14":
			checkC14One(c.rep, &wc, wc.datas())
		case "C16":
			checkC16(c.rep, c.pool, &wc)
		case "C20":
			p := 0
			fmt.Sscanf(wc.Datas[0].Gen, "per%d", &p)
			checkC20(c.rep, c.pool, &wc, p)
		}
		return
	}
	replayOther(c, v)
}
