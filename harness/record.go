//go:build verif

package main

import (
	"fmt"
	"strings"

	"github.com/intel/fastgo/compress/flate"
)

// Recording of the match-finder calls through the verif hook (Writer.VerifRecord).

type GenCall struct {
	Flush             bool
	Len, Proc, Off    int
	NTok0, NOff, NTok int
	New               []uint32 // tokens added by the call (packed form)
	Extended          bool     // the returned tokens extend the ones passed in
}

var distBaseTab = []uint32{1, 2, 3, 4, 5, 7, 9, 13, 17, 25, 33, 49, 65, 97, 129, 193, 257, 385, 513, 769, 1025, 1537, 2049, 3073, 4097, 6145, 8193, 12289, 16385, 24577}

// attachRecorder makes w report its match-finder calls; false if w is not a fastgo flate writer
// with its own LZ77 compressor.
func attachRecorder(w interface{}, sink *[]GenCall) bool {
	fw, ok := w.(*flate.Writer)
	if !ok {
		return false
	}
	return fw.VerifRecord(func(g flate.VerifGen) {
		c := GenCall{Flush: g.Flush, Len: len(g.Input), Proc: g.Processed, Off: g.Offset, NTok0: len(g.Before), NOff: g.NOffset, NTok: len(g.After)}
		c.Extended = len(g.After) >= len(g.Before)
		if c.Extended {
			for i := range g.Before {
				if g.Before[i] != g.After[i] {
					c.Extended = false
					break
				}
			}
		}
		if c.Extended {
			c.New = append([]uint32(nil), g.After[len(g.Before):]...)
		}
		*sink = append(*sink, c)
	})
}

// encodeCalls renders the calls for the driver's O request (tokens unpacked: a two-literal token
// becomes two literals).
func encodeCalls(calls []GenCall) string {
	if len(calls) == 0 {
		return "-"
	}
	var b strings.Builder
	for i, c := range calls {
		if i > 0 {
			b.WriteByte(';')
		}
		fl := 0
		if c.Flush {
			fl = 1
		}
		fmt.Fprintf(&b, "%d:%d:%d:%d:%d:%d:%d:", fl, c.Len, c.Proc, c.Off, c.NTok0, c.NOff, c.NTok)
		if len(c.New) == 0 {
			b.WriteByte('-')
		}
		for j, t := range c.New {
			if j > 0 {
				b.WriteByte(',')
			}
			litLen := t & 0x3ff
			dist := (t >> 10) & 0x1ff
			extra := t >> 19
			switch {
			case dist == 30:
				fmt.Fprintf(&b, "l%d", litLen)
			case dist > 30:
				fmt.Fprintf(&b, "l%d,l%d", litLen, dist-31)
			default:
				fmt.Fprintf(&b, "m%d.%d", litLen-254, distBaseTab[dist]+extra)
			}
		}
	}
	return b.String()
}

const hooksAvailable = true
