package main

import (
	"crypto/sha256"
	"encoding/hex"
	"encoding/json"
	"fmt"
	"os"
	"sort"
	"sync"
)

// Violation is one failed oracle on one case; Case is everything needed to replay it.
type Violation struct {
	Prop   string          `json:"property"`
	Oracle string          `json:"oracle"` // which rule failed
	Class  string          `json:"class"`  // name of the known-finding matcher that fits, or ""
	Detail string          `json:"detail"`
	Level  int             `json:"arch_level"`
	Build  string          `json:"build"`
	Case   json.RawMessage `json:"case"`
}

// Report is what one harness process writes for the orchestrator.
type Report struct {
	Prop        string            `json:"property"`
	Tier        string            `json:"tier"`
	Seed        uint64            `json:"seed"`
	Level       int               `json:"arch_level"`
	Build       string            `json:"build"`
	Evaluations int               `json:"evaluations"`
	Distinct    int               `json:"distinct_nontrivial"`
	Rule        string            `json:"rule"`
	Samples     []string          `json:"samples"`
	Hist        map[string]int    `json:"histogram"`
	Violations  []Violation       `json:"violations"`
	Digests     map[string]string `json:"digests,omitempty"` // case id -> digest of level-independent observables
	ModelCases  int               `json:"model_cases"`
	ModelDiffs  int               `json:"model_mismatches"`
	SpecReqs    int64             `json:"spec_requests"`
	Notes       []string          `json:"notes,omitempty"`
	OnlyCase    json.RawMessage   `json:"only_case,omitempty"`
	OnlyObs     []string          `json:"only_obs,omitempty"`
	WallS       float64           `json:"wall_s"`

	mu       sync.Mutex
	distinct map[string]bool
}

func NewReport(prop, tier string, seed uint64, level int, build string) *Report {
	return &Report{Prop: prop, Tier: tier, Seed: seed, Level: level, Build: build,
		Hist: map[string]int{}, Violations: []Violation{}, Samples: []string{}, Digests: map[string]string{}, distinct: map[string]bool{}}
}

// Eval counts one evaluated case; key identifies it for the distinct count ("" = trivial).
func (r *Report) Eval(key string, sample string) {
	r.mu.Lock()
	defer r.mu.Unlock()
	r.Evaluations++
	if key != "" && !r.distinct[key] {
		r.distinct[key] = true
		r.Distinct++
		if len(r.Samples) < 6 {
			r.Samples = append(r.Samples, sample)
		}
	}
}
func (r *Report) Count(k string) {
	r.mu.Lock()
	r.Hist[k]++
	r.mu.Unlock()
}
func (r *Report) Note(s string) {
	r.mu.Lock()
	if len(r.Notes) < 40 {
		r.Notes = append(r.Notes, s)
	}
	r.mu.Unlock()
}

// DigestR records the level-independent observables of a reader run, keyed by the digest of
// its input: streams produced by fastgo's own writer differ between acceleration levels
// (match choices), and observables are only comparable across levels for equal inputs.
func (r *Report) DigestR(id string, o *RObs, parts ...[]byte) {
	if onlyID != "" {
		r.mu.Lock()
		r.OnlyObs = append(r.OnlyObs, fmt.Sprintf("bytes=%d [%s...] err=%s panic=%q hang=%v srcerr=%v after=%v ctor=%q left=%d", len(o.Bytes), hexs(o.Bytes[:minInt(len(o.Bytes), 48)]), o.Err, o.Panic, o.Hang, o.ErrIsSrc, o.After, o.CtorErr, len(o.Left)))
		r.mu.Unlock()
	}
	if len(parts) == 0 {
		parts = o.digestParts()
	}
	r.digestKeyed(id, o.InKey, parts...)
}

func (r *Report) Digest(id string, parts ...[]byte) { r.digestKeyed(id, "", parts...) }

func (r *Report) digestKeyed(id string, key string, parts ...[]byte) {
	h := sha256.New()
	for _, p := range parts {
		fmt.Fprintf(h, "%d:", len(p))
		h.Write(p)
	}
	r.mu.Lock()
	r.Digests[id] = key + "/" + hex.EncodeToString(h.Sum(nil))[:24]
	r.mu.Unlock()
}

// classer: a case that can tell whether it falls under a known finding that is independent of
// the oracle (e.g. a defect of the Go standard library that fastgo delegates to).
type classer interface{ knownClass() string }

func (r *Report) Violate(oracle, class, detail string, c interface{}) {
	if kc, ok := c.(classer); ok && class == "" {
		class = kc.knownClass()
	}
	raw, _ := json.Marshal(c)
	r.mu.Lock()
	defer r.mu.Unlock()
	// keep the report bounded: at most 40 violations, preferring distinct oracles/classes
	n := 0
	for _, v := range r.Violations {
		if v.Oracle == oracle && v.Class == class {
			n++
		}
	}
	r.Hist["violation:"+oracle+"/"+class]++
	if n >= 3 || len(r.Violations) >= 60 {
		return
	}
	r.Violations = append(r.Violations, Violation{Prop: r.Prop, Oracle: oracle, Class: class,
		Detail: trunc(detail, 600), Level: r.Level, Build: r.Build, Case: raw})
}
func (r *Report) Write(path string) error {
	sort.Strings(r.Samples)
	b, _ := json.MarshalIndent(r, "", " ")
	return os.WriteFile(path, b, 0o644)
}
