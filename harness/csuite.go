package main

import (
	"bufio"
	"bytes"
	stdgzip "compress/gzip"
	"encoding/binary"
	"fmt"
	"hash/adler32"
	"hash/crc32"
	"io"

	"github.com/intel/fastgo/compress/gzip"
)

func init() {
	suites["C06"] = suiteC06
	suites["C07"] = suiteC07
	suites["C08"] = suiteC08
}

// CCase: a container case.
type CCase struct {
	Prop    string   `json:"property"`
	ID      string   `json:"id"`
	Dir     string   `json:"dir"` // fast->std | std->fast
	W       *WCase   `json:"w"`
	Members []*WCase `json:"members,omitempty"`
	Trail   string   `json:"trail,omitempty"`
	Flip    []int    `json:"flip,omitempty"`
	Subst   []int    `json:"subst,omitempty"`
	Cut     int      `json:"cut"`
	Reads   string   `json:"reads"`
	RSeed   uint64   `json:"rseed"`
	Buf     int      `json:"buf,omitempty"`
	HCRC    bool     `json:"hcrc,omitempty"`   // gzip: the header is rewritten with FHCRC and its CRC-16
	Single  bool     `json:"single,omitempty"` // gzip: read with Multistream(false)
}

// withHeaderCRC rewrites a gzip member's header so that it carries the optional header checksum
// (FLG.FHCRC + the low 16 bits of the CRC-32 of the header bytes), which no Go writer emits.
func withHeaderCRC(member []byte) []byte {
	n, ok := gzipHeaderLen(member)
	if !ok || member[3]&2 != 0 {
		return member
	}
	h := append([]byte(nil), member[:n]...)
	h[3] |= 2
	sum := crc32.ChecksumIEEE(h)
	out := append(h, byte(sum), byte(sum>>8))
	return append(out, member[n:]...)
}

func (c *CCase) knownClass() string {
	if c.W.knownClass() != "" {
		return c.W.knownClass()
	}
	for _, m := range c.Members {
		if m.knownClass() != "" {
			return m.knownClass()
		}
	}
	return ""
}

func (c *CCase) sample() string {
	s := fmt.Sprintf("%s %s cut=%d flip=%v subst=%v reads=%s", c.Dir, c.W.sample(), c.Cut, c.Flip, c.Subst, c.Reads)
	if len(c.Members) > 0 {
		s += fmt.Sprintf(" members=%d trail=%d buf=%d", len(c.Members), len(c.Trail)/2, c.Buf)
	}
	return s
}

func randLatin1(r *Rng, n int) string {
	b := make([]byte, n)
	for i := range b {
		b[i] = byte(1 + r.Intn(255))
	}
	return hexs(b)
}

func genHeader(r *Rng) *GzHeader {
	if r.Intn(3) == 0 {
		return nil
	}
	h := &GzHeader{OS: byte(r.Intn(256))}
	if r.Bool() {
		h.Name = randLatin1(r, r.Pick([]int{1, 5, 40, 500}))
	}
	if r.Bool() {
		h.Comment = randLatin1(r, r.Pick([]int{1, 9, 300}))
	}
	if r.Intn(3) == 0 {
		h.Extra = hexs(r.Bytes(r.Pick([]int{0, 1, 4, 100, 65535})))
		if h.Extra == "" {
			h.Extra = "-"
		}
	}
	if r.Bool() {
		h.ModTime = int64(r.Intn(1 << 31))
		if r.Intn(3) == 0 {
			// the upper half of the unsigned 32-bit range (2038..2106)
			h.ModTime += 1 << 31
		}
	}
	return h
}

func genContainerW(r *Rng, api string) *WCase {
	s := Setting{API: api, Level: r.Range(-2, 9)}
	if api == "gzip" {
		s.Hdr = genHeader(r)
	} else if r.Intn(3) == 0 {
		s.Dict = &DataSpec{Gen: r.PickS([]string{"text", "rnd"}), Seed: r.U64(), N: r.Pick([]int{4, 100, 5000, 40000, 40000, r.Range(1, 3)})}
	}
	n := pickSize(r, s, r.Intn(8) == 0)
	w := &WCase{Set: s, Datas: []DataSpec{pickData(r, Setting{Win4K: true, Dict: s.Dict}, n)}}
	w.Ops = append(partition(r, n, 0, s, r.Intn(3) == 0), Op{K: "c"})
	return w
}

type hdrFields struct {
	Name, Comment string
	Extra         []byte
	MTime         int64
	OS            byte
}

// readContainer decodes with fastgo (std=false) or the standard library.
func readContainer(api string, std bool, in []byte, dict []byte, reads string, seed uint64) (o RObs, h hdrFields) {
	// one case in three reads through a reused Reader: constructed on an empty container (for zlib:
	// one without FDICT), read to its end, then Reset onto the container under test
	ctor := "new"
	if seed%3 == 0 {
		ctor = "reset"
	}
	o = RunR(api, std, in, dict, SrcSpec{Kind: "bytes.Reader"}, ctor, nil, reads, seed, 0)
	if api == "gzip" && o.CtorErr == "" {
		if std {
			if zr, err := stdgzip.NewReader(bytes.NewReader(in)); err == nil {
				h = hdrFields{zr.Name, zr.Comment, zr.Extra, zr.ModTime.Unix(), zr.OS}
			}
		} else {
			func() {
				defer func() { recover() }()
				if zr, err := gzip.NewReader(bytes.NewReader(in)); err == nil {
					h = hdrFields{zr.Name, zr.Comment, zr.Extra, zr.ModTime.Unix(), zr.OS}
				}
			}()
		}
	}
	return
}

func checkC06(rep *Report, pool *DriverPool, c *CCase) {
	w := c.W
	datas := w.datas()
	var dict []byte
	if w.Set.Dict != nil {
		dict = w.Set.Dict.Generate()
	}
	fromStd := c.Dir == "std->fast"
	obs := RunW(w.Set, fromStd, datas, w.Ops, 0)
	other := RunW(w.Set, !fromStd, datas, w.Ops, 0)
	rep.Eval(fmt.Sprintf("%s|%s|%s|%d|%d|%v", c.Dir, w.Set, w.Datas[0].Gen, w.Datas[0].N, len(w.Ops), w.Set.Hdr != nil), c.sample())
	rep.Count("dir:" + c.Dir)
	rep.Count("setting:" + w.Set.API + fmt.Sprintf("/L%d", w.Set.Level))
	if obs.Panic != "" {
		rep.Violate("panic", "", obs.Panic, c)
		return
	}
	// the two writers must agree on which operations fail (e.g. a header field that cannot be represented)
	for i := range w.Ops {
		if (obs.Res[i].Err != "") != (other.Res[i].Err != "") {
			rep.Violate("writer-error-differs", "", fmt.Sprintf("op %d: %q vs %q", i, obs.Res[i].Err, other.Res[i].Err), c)
			return
		}
	}
	if ok, _ := allNil(obs.Res); !ok {
		rep.Count("writer-rejected-header")
		return
	}
	out := obs.Bytes(0)
	payload := written(datas, w.Ops)[0]
	// trailer
	if !fromStd {
		switch w.Set.API {
		case "gzip":
			if len(out) < 8 || binary.LittleEndian.Uint32(out[len(out)-8:]) != crc32.ChecksumIEEE(payload) || binary.LittleEndian.Uint32(out[len(out)-4:]) != uint32(len(payload)) {
				rep.Violate("trailer", "", "gzip trailer is not (CRC-32, length mod 2^32) of the payload written", c)
			}
		case "zlib":
			if len(out) < 4 || binary.BigEndian.Uint32(out[len(out)-4:]) != adler32.Checksum(payload) {
				rep.Violate("trailer", "", "zlib trailer is not the Adler-32 of the payload written", c)
			}
		}
	}
	o, h := readContainer(w.Set.API, !fromStd, out, dict, c.Reads, c.RSeed)
	rep.DigestR(c.ID, &o)
	if fromStd && w.Set.API != "flate" {
		compareContainerModel(rep, pool, c, w.Set.API, true, dict, w.Set.Dict != nil, out, &o, -1)
	}
	if o.Panic != "" || o.Hang {
		rep.Violate("panic", "", o.Panic, c)
		return
	}
	if o.CtorErr != "" || o.Err != "EOF" || !bytes.Equal(o.Bytes, payload) {
		rep.Violate("payload", "", fmt.Sprintf("%s: reader returned ctor=%q %d bytes, %s; expected %d bytes, EOF (first difference %d)", c.Dir, o.CtorErr, len(o.Bytes), o.Err, len(payload), firstDiff(o.Bytes, payload)), c)
		return
	}
	if w.Set.API == "gzip" {
		var want hdrFields
		want.OS = 255
		if w.Set.Hdr != nil {
			var mt int64
			hh := w.Set.Hdr
			want = hdrFields{string(latin1ToRunes(unhex(hh.Name))), string(latin1ToRunes(unhex(hh.Comment))), nil, mt, hh.OS}
			if hh.Extra != "" {
				want.Extra = unhex(hh.Extra)
			}
			want.MTime = hh.ModTime
		}
		gotMT := h.MTime
		if want.MTime == 0 {
			gotMT = 0 // zero time: Unix() of time.Time{} is not 0
		}
		if h.Name != want.Name || h.Comment != want.Comment || !bytes.Equal(h.Extra, want.Extra) || gotMT != want.MTime || h.OS != want.OS {
			rep.Violate("header-fields", "", fmt.Sprintf("%s: header read back differs: name %d/%d comment %d/%d extra %d/%d mtime %d/%d os %d/%d", c.Dir, len(h.Name), len(want.Name), len(h.Comment), len(want.Comment), len(h.Extra), len(want.Extra), gotMT, want.MTime, h.OS, want.OS), c)
		}
	}
}

func suiteC06(c *ctx) {
	c.rep.Rule = "gzip and zlib containers in both directions (fastgo writer -> standard library reader, standard library writer -> fastgo reader): payload generators x sizes x levels -2..9 x Write/Flush partitions x gzip header fields (Latin-1 name/comment up to 600 bytes, extra up to 65535, mtime, OS) x zlib dictionaries, and writer reuse through Reset; trailer recomputed with hash/crc32 and hash/adler32; distinct = distinct (direction, setting, generator, size, #ops, header present)"
	r := NewRng(c.seed ^ 0xC06)
	var cases []*CCase
	for i := 0; i < c.n(420); i++ {
		api := r.PickS([]string{"gzip", "zlib"})
		cc := &CCase{Prop: "C06", ID: fmt.Sprintf("C06-%d", i), Dir: r.PickS([]string{"fast->std", "std->fast"}), W: genContainerW(r, api), Cut: -1,
			Reads: readStyles[r.Intn(len(readStyles))], RSeed: r.U64()}
		if cc.Reads == "one" {
			cc.Reads = "k3"
		}
		if i%6 == 0 {
			// reuse through Reset: an earlier stream, Reset, then the stream under test
			pre := genContainerW(r, api)
			pre.Set = cc.W.Set
			pre.Datas[0].N = min2(pre.Datas[0].N, 20000)
			cc.W.Datas = append(cc.W.Datas, pre.Datas[0])
			var ops []Op
			for _, o := range pre.Ops {
				o.Src = 1
				ops = append(ops, o)
			}
			if r.Bool() {
				ops = ops[:len(ops)-1] // abandon without Close
			}
			cc.W.Ops = append(append(ops, Op{K: "r"}), cc.W.Ops...)
		}
		cases = append(cases, cc)
	}
	parallelJ(len(cases), func(i int) interface{} { return cases[i] }, func(i int) { checkC06Reset(c.rep, c.pool, cases[i]) })
}

// checkC06Reset handles the Reset-prefixed histories by comparing the last destination only.
func checkC06Reset(rep *Report, pool *DriverPool, c *CCase) {
	hasReset := false
	for _, o := range c.W.Ops {
		if o.K == "r" {
			hasReset = true
		}
	}
	if !hasReset {
		checkC06(rep, pool, c)
		return
	}
	w := c.W
	datas := w.datas()
	var dict []byte
	if w.Set.Dict != nil {
		dict = w.Set.Dict.Generate()
	}
	fromStd := c.Dir == "std->fast"
	obs := RunW(w.Set, fromStd, datas, w.Ops, 0)
	rep.Eval(fmt.Sprintf("reset|%s|%s|%d|%d", c.Dir, w.Set, w.Datas[0].N, len(w.Ops)), c.sample())
	rep.Count("with-reset")
	if obs.Panic != "" {
		rep.Violate("panic", "", obs.Panic, c)
		return
	}
	if ok, _ := allNil(obs.Res); !ok {
		rep.Count("writer-rejected-header")
		return
	}
	out := obs.Bytes(len(obs.Dests) - 1)
	wr := written(datas, w.Ops)
	payload := wr[len(wr)-1]
	o, _ := readContainer(w.Set.API, !fromStd, out, dict, c.Reads, c.RSeed)
	if o.Panic != "" || o.CtorErr != "" || o.Err != "EOF" || !bytes.Equal(o.Bytes, payload) {
		rep.Violate("payload-after-reset", "", fmt.Sprintf("%s: after Reset the container decodes to ctor=%q %d bytes, %s; expected %d bytes", c.Dir, o.CtorErr, len(o.Bytes), o.Err, len(payload)), c)
	}
}

// ---------- C07 ----------

func checkC07(rep *Report, pool *DriverPool, c *CCase) {
	w := c.W
	datas := w.datas()
	var dict []byte
	if w.Set.Dict != nil {
		dict = w.Set.Dict.Generate()
	}
	obs := RunW(w.Set, c.Dir == "std->fast", datas, w.Ops, 0)
	if ok, _ := allNil(obs.Res); !ok || obs.Panic != "" {
		return
	}
	good := obs.Bytes(0)
	if c.HCRC && w.Set.API == "gzip" {
		good = withHeaderCRC(good)
	}
	// the content of the container is what the standard library reads from the intact copy
	ref, _ := readContainer(w.Set.API, true, good, dict, "big", 0)
	if ref.Err != "EOF" || ref.CtorErr != "" {
		return
	}
	payload := ref.Bytes
	in := append([]byte(nil), good...)
	for _, b := range c.Flip {
		in[(b/8)%len(in)] ^= 1 << uint(b%8)
	}
	for i := 0; i+1 < len(c.Subst); i += 2 {
		in[c.Subst[i]%len(in)] = byte(c.Subst[i+1])
	}
	if c.Cut >= 0 && c.Cut < len(in) {
		in = in[:c.Cut]
	}
	api := w.Set.API
	rapi := api
	if c.Single && api == "gzip" {
		rapi = "gzip1"
	}
	o, _ := readContainer(rapi, false, in, dict, c.Reads, c.RSeed)
	kind := "corrupt"
	if c.Cut >= 0 {
		kind = "cut"
	}
	rep.Eval(fmt.Sprintf("%s|%s|%d|%s|%v|%v|%d", api, w.Datas[0].Gen, w.Datas[0].N, kind, c.Flip, c.Subst, c.Cut), c.sample())
	rep.Count("kind:" + kind + "/" + api)
	rep.Count("result:" + o.Err + o.CtorErr)
	rep.DigestR(c.ID, &o)
	if o.Panic != "" || o.Hang {
		rep.Violate("panic-or-hang", "", o.Panic, c)
		return
	}
	compareContainerModel(rep, pool, c, api, !c.Single, dict, w.Set.Dict != nil, in, &o, -1)
	if c.Cut >= 0 && len(c.Flip) == 0 && len(c.Subst) == 0 {
		// truncated inside the member: unexpected EOF after nothing but a prefix of the payload
		if !isPrefix(o.Bytes, payload) {
			rep.Violate("truncated-bytes-not-payload-prefix", "", fmt.Sprintf("%d bytes returned before %s are not a prefix of the payload (first difference %d)", len(o.Bytes), o.Err, firstDiff(o.Bytes, payload)), c)
			return
		}
		e := o.Err
		if o.CtorErr != "" {
			e = o.CtorErr
		}
		if c.Cut == 0 && api == "gzip" {
			if e != "EOF" {
				rep.Violate("empty-gzip-input", "", "empty input: expected io.EOF from the constructor, got "+e, c)
			}
			return
		}
		if e != "UEOF" {
			rep.Violate("truncated-not-unexpected-eof", "", fmt.Sprintf("container cut at byte %d of %d ended in %s", c.Cut, len(good), e), c)
		}
		return
	}
	if o.CtorErr == "" && o.Err == "EOF" {
		// success: the bytes handed out must match the trailer of the input as it is
		okSum := false
		switch api {
		case "gzip":
			okSum = len(in) >= 8 && binary.LittleEndian.Uint32(in[len(in)-8:]) == crc32.ChecksumIEEE(o.Bytes) && binary.LittleEndian.Uint32(in[len(in)-4:]) == uint32(len(o.Bytes))
		case "zlib":
			okSum = len(in) >= 4 && binary.BigEndian.Uint32(in[len(in)-4:]) == adler32.Checksum(o.Bytes)
		}
		so, _ := readContainer(rapi, true, in, dict, "big", 0)
		if !okSum || so.Err != "EOF" || !bytes.Equal(so.Bytes, o.Bytes) {
			rep.Violate("success-without-matching-checksum", "", fmt.Sprintf("fastgo returned %d bytes and io.EOF; trailer match=%v; the standard library: %d bytes, %s%s", len(o.Bytes), okSum, len(so.Bytes), so.Err, so.CtorErr), c)
		}
		return
	}
	e := o.Err
	if o.CtorErr != "" {
		e = o.CtorErr
	}
	switch e {
	case "CHECKSUM", "HEADER", "CORRUPT", "UEOF", "DICT":
	default:
		rep.Violate("unexpected-error-kind", "", "corrupted container ended in "+e, c)
	}
}

func suiteC07(c *ctx) {
	c.rep.Rule = "well-formed gzip/zlib containers (written by fastgo or the standard library) with 1-3 bit flips, byte substitutions, trailer edits, or cut at a byte (every byte for small ones); the CRC-32/length or Adler-32 of what fastgo returned is recomputed and compared with the trailer, and with the standard library's verdict; distinct = distinct (api, generator, size, corruption)"
	r := NewRng(c.seed ^ 0xC07)
	var cases []*CCase
	for i := 0; i < c.n(130); i++ {
		api := r.PickS([]string{"gzip", "zlib"})
		w := genContainerW(r, api)
		if w.Datas[0].N > 40000 {
			w.Datas[0].N = r.Intn(40000)
			w.Ops = []Op{{K: "w", N: w.Datas[0].N}, {K: "c"}}
		}
		if w.Set.Hdr != nil && len(w.Set.Hdr.Extra) > 2000 {
			w.Set.Hdr.Extra = "0102"
		}
		dir := r.PickS([]string{"fast->std", "std->fast"})
		obs := RunW(w.Set, dir == "std->fast", w.datas(), w.Ops, 0)
		if ok, _ := allNil(obs.Res); !ok {
			continue
		}
		n := len(obs.Bytes(0))
		for k := 0; k < 10; k++ {
			cc := &CCase{Prop: "C07", ID: fmt.Sprintf("C07-%d-%d", i, k), Dir: dir, W: w, Cut: -1, Reads: readStyles[r.Intn(len(readStyles))], RSeed: r.U64(),
				HCRC: api == "gzip" && i%3 == 0, Single: api == "gzip" && (i+k)%3 == 1}
			if cc.Reads == "one" {
				cc.Reads = "k3"
			}
			switch k % 5 {
			case 0:
				cc.Cut = r.Intn(n)
			case 1:
				cc.Cut = n - 1 - r.Intn(min2(n, 9))
			case 2: // trailer edit
				cc.Flip = []int{(n-1-r.Intn(min2(n, 8)))*8 + r.Intn(8)}
			case 3:
				for j := 1 + r.Intn(3); j > 0; j-- {
					cc.Flip = append(cc.Flip, r.Intn(n*8))
				}
			default:
				cc.Subst = []int{r.Intn(n), r.Intn(256)}
			}
			cases = append(cases, cc)
		}
		if n >= 8 {
			// a whole trailer field overwritten with zeros (or ones): the stored length, the checksum
			nn := n
			if api == "gzip" && i%3 == 0 {
				nn += 2 // the header checksum added by withHeaderCRC
			}
			for k, f := range [][3]int{{nn - 4, 4, 0}, {nn - 8, 4, 0}, {nn - 4, 4, 255}, {nn - 8, 8, 0}} {
				if api == "zlib" && k != 0 {
					continue
				}
				cc := &CCase{Prop: "C07", ID: fmt.Sprintf("C07-%d-z%d", i, k), Dir: dir, W: w, Cut: -1, Reads: "big", RSeed: r.U64(),
					HCRC: api == "gzip" && i%3 == 0, Single: api == "gzip" && (i+k)%3 == 1}
				for j := 0; j < f[1]; j++ {
					cc.Subst = append(cc.Subst, f[0]+j, f[2])
				}
				cases = append(cases, cc)
			}
		}
		hcrc := api == "gzip" && i%3 == 0
		lo, hi := 0, 0
		if n <= 80 {
			hi = n
		}
		if hcrc {
			// every cut around the end of a header that carries the optional header checksum
			n += 2
			if hl, ok := gzipHeaderLen(withHeaderCRC(obs.Bytes(0))); ok && hi == 0 {
				lo, hi = hl-8, hl+4
				if lo < 0 {
					lo = 0
				}
			}
		}
		for cut := lo; cut < hi && cut < n; cut++ {
			cases = append(cases, &CCase{Prop: "C07", ID: fmt.Sprintf("C07-%d-t%d", i, cut), Dir: dir, W: w, Cut: cut, Reads: "big", HCRC: hcrc, Single: cut%2 == 1})
		}
	}
	parallelJ(len(cases), func(i int) interface{} { return cases[i] }, func(i int) { checkC07(c.rep, c.pool, cases[i]) })
}

// ---------- C08 ----------

type memberRes struct {
	Payload []byte
	Name    string
	Err     string
}

// memberByMember reads with Multistream(false) + Reset on one bufio.Reader.
func memberByMember(std bool, all []byte, bufSize int, reads string, seed uint64) (ms []memberRes, left []byte, final string, pan string) {
	defer func() {
		if r := recover(); r != nil {
			pan = fmt.Sprint(r)
		}
	}()
	br := bufio.NewReaderSize(bytes.NewReader(all), bufSize)
	rs := &readSched{style: reads, r: NewRng(seed)}
	var rd interface {
		Read([]byte) (int, error)
		Reset(io.Reader) error
		Multistream(bool)
	}
	var err error
	var name func() string
	if std {
		zr, e := stdgzip.NewReader(br)
		err = e
		if e == nil {
			rd, name = zr, func() string { return zr.Name }
		}
	} else {
		zr, e := gzip.NewReader(br)
		err = e
		if e == nil {
			rd, name = zr, func() string { return zr.Name }
		}
	}
	if err != nil {
		return nil, nil, errKind(err), ""
	}
	for k := 0; k < 50; k++ {
		rd.Multistream(false)
		var buf bytes.Buffer
		var e error
		for i := 0; i < 1<<22; i++ {
			p := make([]byte, rs.next())
			n, er := rd.Read(p)
			buf.Write(p[:n])
			if er != nil {
				e = er
				break
			}
		}
		ms = append(ms, memberRes{buf.Bytes(), name(), errKind(e)})
		if e != io.EOF {
			return ms, nil, errKind(e), ""
		}
		// what is left belongs to the next member or is trailing data
		peek, _ := br.Peek(2)
		if len(peek) < 2 || peek[0] != 0x1f || peek[1] != 0x8b {
			left, _ = io.ReadAll(br)
			return ms, left, "done", ""
		}
		if err := rd.Reset(br); err != nil {
			left, _ = io.ReadAll(br)
			return ms, left, "reset:" + errKind(err), ""
		}
	}
	return ms, nil, "too-many", ""
}

func checkC08(rep *Report, pool *DriverPool, c *CCase) {
	var all, concat []byte
	var payloads [][]byte
	var names []string
	for _, m := range c.Members {
		d := m.datas()
		obs := RunW(m.Set, m.Prop == "std", d, m.Ops, 0)
		if ok, _ := allNil(obs.Res); !ok || obs.Panic != "" {
			return
		}
		all = append(all, obs.Bytes(0)...)
		p := written(d, m.Ops)[0]
		payloads = append(payloads, p)
		concat = append(concat, p...)
		nm := ""
		if m.Set.Hdr != nil {
			nm = string(latin1ToRunes(unhex(m.Set.Hdr.Name)))
		}
		names = append(names, nm)
	}
	trail := unhex(c.Trail)
	rep.Eval(fmt.Sprintf("m%d|%d|%d|%s|%d", len(c.Members), len(all), len(trail), c.Reads, c.Buf), c.sample())
	rep.Count(fmt.Sprintf("members:%d", len(c.Members)))
	// default mode: concatenation then EOF (no trailing data in this mode)
	if len(trail) == 0 {
		o := RunR("gzip", false, all, nil, SrcSpec{Kind: "bufio", Buf: c.Buf, Chunk: "rand", Seed: c.RSeed, Term: "eof"}, "new", nil, c.Reads, c.RSeed, 0)
		rep.DigestR(c.ID, &o)
		compareContainerModel(rep, pool, c, "gzip", true, nil, false, all, &o, -1)
		if o.Panic != "" || o.Hang || o.CtorErr != "" || o.Err != "EOF" || !bytes.Equal(o.Bytes, concat) {
			rep.Violate("concatenation", "", fmt.Sprintf("default mode: ctor=%q panic=%q %d bytes, %s; expected the %d bytes of all members then EOF (first difference %d)", o.CtorErr, o.Panic, len(o.Bytes), o.Err, len(concat), firstDiff(o.Bytes, concat)), c)
			return
		}
	}
	in := append(append([]byte(nil), all...), trail...)
	ms, left, final, pan := memberByMember(false, in, c.Buf, c.Reads, c.RSeed)
	if pan != "" {
		rep.Violate("panic", "", pan, c)
		return
	}
	if len(ms) != len(c.Members) || final != "done" {
		rep.Violate("member-count", "", fmt.Sprintf("member by member: got %d members, final=%s; expected %d", len(ms), final, len(c.Members)), c)
		return
	}
	for i, m := range ms {
		if m.Err != "EOF" || !bytes.Equal(m.Payload, payloads[i]) || m.Name != names[i] {
			rep.Violate("member-payload", "", fmt.Sprintf("member %d: %d bytes, %s, name %q; expected %d bytes, name %q", i, len(m.Payload), m.Err, trunc(m.Name, 20), len(payloads[i]), trunc(names[i], 20)), c)
			return
		}
	}
	if !bytes.Equal(left, trail) {
		rep.Violate("trailing-data", "", fmt.Sprintf("after the last member %d bytes are left unread, expected the %d trailing bytes", len(left), len(trail)), c)
	}
}

func suiteC08(c *ctx) {
	c.rep.Rule = "sequences of 1..6 gzip members (written by fastgo or the standard library at any level, empty members included, names in the headers) optionally followed by non-gzip data; read in default mode (concatenation) and member by member with Multistream(false)+Reset on one bufio.Reader of size 16..65536; distinct = distinct (#members, total length, trailing length, read style, bufio size)"
	r := NewRng(c.seed ^ 0xC08)
	var cases []*CCase
	for i := 0; i < c.n(260); i++ {
		cc := &CCase{Prop: "C08", ID: fmt.Sprintf("C08-%d", i), Cut: -1, Reads: readStyles[r.Intn(len(readStyles))], RSeed: r.U64(), Buf: r.Pick(bufSizes)}
		if cc.Reads == "one" {
			cc.Reads = "k3"
		}
		for k := 1 + r.Intn(6); k > 0; k-- {
			w := genContainerW(r, "gzip")
			if r.Intn(4) == 0 {
				w.Datas[0].N = 0
				w.Ops = []Op{{K: "c"}}
			}
			if w.Datas[0].N > 30000 {
				w.Datas[0].N = r.Intn(30000)
				w.Ops = []Op{{K: "w", N: w.Datas[0].N}, {K: "c"}}
			}
			if w.Set.Hdr != nil && len(w.Set.Hdr.Extra) > 400 {
				w.Set.Hdr.Extra = ""
			}
			if r.Bool() {
				w.Prop = "std"
			}
			cc.Members = append(cc.Members, w)
		}
		if i%13 == 5 || i%13 == 11 {
			// a member whose payload ends one or two bytes past a multiple of the decoder's output
			// window, over a tiny alphabet (short codes: the last literals and the end-of-block code
			// share one lookup entry), written by fastgo's Huffman-only or level-1 writer, followed by
			// another member of a few KiB
			n := 65536 + 32768*r.Intn(3) + r.Range(1, 2)
			big := &WCase{Set: Setting{API: "gzip", Level: r.Pick([]int{-2, -2, 1})}, Datas: []DataSpec{{Gen: r.PickS([]string{"uni1", "two", "uni2"}), Seed: r.U64(), N: n}}, Ops: []Op{{K: "w", N: n}, {K: "c"}}}
			next := &WCase{Set: Setting{API: "gzip", Level: r.Pick([]int{-2, 1, 6})}, Datas: []DataSpec{{Gen: "text", Seed: r.U64(), N: r.Range(3000, 9000)}}, Prop: r.PickS([]string{"", "std"})}
			next.Ops = []Op{{K: "w", N: next.Datas[0].N}, {K: "c"}}
			cc.Members = []*WCase{big, next}
			cc.Reads = "big"
			// (packed entries are used for a final block only when enough input is buffered behind it)
			cc.Buf = r.Pick([]int{4096, 8192, 65536})
		}
		cc.W = cc.Members[0]
		if r.Intn(3) == 0 {
			t := r.Bytes(1 + r.Intn(40))
			if len(t) >= 2 && t[0] == 0x1f && t[1] == 0x8b {
				t[0] = 0
			}
			cc.Trail = hexs(t)
		}
		cases = append(cases, cc)
	}
	parallelJ(len(cases), func(i int) interface{} { return cases[i] }, func(i int) { checkC08(c.rep, c.pool, cases[i]) })
}
