package main

import (
	"bytes"
	"fmt"
	"strings"
	"time"
)

// Correspondence of the extracted Coq writer model (coq/WModel, function wrun) with the
// implementation at acceleration level 0 (the pure-Go match finder and packers): for the same
// history and the same destination fault the model must reproduce, byte for byte, every chunk
// every destination received and every (n, error?) result.

// modelApplies: settings served by fastgo's own compressors through the flate API, without a
// dictionary, on a build/level whose match finder and packers are the Go code that is modelled.
func modelApplies(s Setting) bool {
	if s.Dict != nil || !s.Accelerated() {
		return false
	}
	switch s.API {
	case "flate", "zlib":
	case "gzip":
		// header fields the gzip Writer rejects (NUL in a string, oversize Extra) or that need Go's time
		// arithmetic are outside the container-writer model
		if s.Hdr != nil && (bytes.IndexByte(unhex(s.Hdr.Name), 0) >= 0 || bytes.IndexByte(unhex(s.Hdr.Comment), 0) >= 0 || len(s.Hdr.Extra) > 2*65535 || s.Hdr.ModTime < 0 || s.Hdr.ModTime >= 1<<32) {
			return false
		}
	default:
		return false
	}
	if buildName == "noasm" || VerifLevel() == 0 {
		return true
	}
	// Huffman-only has no match finder: at the accelerated levels only the packer differs
	// (assembly at level 4), so the same model applies with bytes compared instead of chunks
	return s.Level == -2 && buildName == "asm" && VerifLevel() >= 1
}

// cost estimate of running the history in the extracted model (list-based buffers)
func modelAffordable(datas [][]byte, ops []Op, budget int) bool {
	total, nw := 0, 0
	for i, op := range ops {
		if op.K == "w" {
			total += opLen(datas, ops, i)
			nw++
		}
	}
	if total > budget {
		return false
	}
	// each Write appends to a buffer of up to 66 KB: many small writes of a large total are quadratic
	return nw*minInt(total, 66000) <= 40*budget
}

func minInt(a, b int) int {
	if a < b {
		return a
	}
	return b
}

var modelTier = "quick"
var harnessStart = time.Now()

// The model comparisons are the expensive part of a run (the extracted models work on lists).
// Each harness process stops starting new ones once its time budget for them is used up, so that a
// check always finishes well inside its time limit; what was skipped is counted in the evidence.
func modelTimeLeft() bool {
	limit := 100 * time.Second
	if modelTier == "thorough" {
		limit = 1500 * time.Second
	}
	return time.Since(harnessStart) < limit
}

type ModelWObs struct {
	EventsOK bool // event_ok_b holds for every block of the ghost trace (premise of the codec theorems)
	Events   int
	OOB      bool
	Res      []OpRes // Err is "" or "E"
	Dests    [][][]byte
}

func (p *DriverPool) ModelW(s Setting, datas [][]byte, ops []Op, failAt int) (*ModelWObs, error) {
	var b strings.Builder
	w4 := 0
	if s.Win4K {
		w4 = 1
	}
	sync := 1
	if buildName == "noasm" {
		sync = 0 // encode_other.go: optimizedEncodeTokens does not Sync before packing
	}
	switch s.API {
	case "gzip":
		h := s.Hdr
		if h == nil {
			h = &GzHeader{OS: 255} // gzip.Writer's default: unknown
		}
		ex := "N"
		if h.Extra != "" {
			ex = h.Extra
		}
		nz := func(x string) string {
			if x == "" {
				return "-"
			}
			return x
		}
		fmt.Fprintf(&b, "C g %d %d %d %s:%s:%s:%d:%d", sync, s.Level, failAt, ex, nz(h.Name), nz(h.Comment), h.ModTime, h.OS)
	case "zlib":
		fmt.Fprintf(&b, "C z %d %d %d -", sync, s.Level, failAt)
	default:
		fmt.Fprintf(&b, "W %d %d %d %d", sync, s.Level, w4, failAt)
	}
	cur := make([]int, len(datas))
	for _, op := range ops {
		switch op.K {
		case "w":
			d := datas[op.Src]
			a := cur[op.Src]
			e := a + op.N
			if e > len(d) {
				e = len(d)
			}
			cur[op.Src] = e
			b.WriteString(" w")
			if e > a {
				b.WriteString(hexs(d[a:e]))
			}
		case "f":
			b.WriteString(" f")
		case "c":
			b.WriteString(" c")
		case "r":
			b.WriteString(" r")
		}
	}
	ans, err := p.Ask(b.String())
	if err != nil {
		return nil, err
	}
	f := strings.Split(ans, " ")
	if len(f) != 6 || f[0] != "W" {
		return nil, fmt.Errorf("driver answered %q", trunc(ans, 200))
	}
	m := &ModelWObs{OOB: f[1] == "1", EventsOK: f[4] == "1"}
	fmt.Sscanf(f[5], "%d", &m.Events)
	if f[2] != "-" {
		for _, r := range strings.Split(f[2], ",") {
			var n, e int
			fmt.Sscanf(r, "%d:%d", &n, &e)
			o := OpRes{N: n}
			if e == 1 {
				o.Err = "E"
			}
			m.Res = append(m.Res, o)
		}
	}
	for _, d := range strings.Split(f[3], "|") {
		var chunks [][]byte
		if d != "." {
			for _, c := range strings.Split(d, ",") {
				chunks = append(chunks, unhex(c))
			}
		}
		m.Dests = append(m.Dests, chunks)
	}
	return m, nil
}

// compareModel runs the history in the model and reports the first difference, if any.
func compareModel(rep *Report, pool *DriverPool, c interface{}, s Setting, datas [][]byte, ops []Op, failAt int, obs *WObs) {
	if failAt == 0 && oracleApplies(s) {
		compareOracle(rep, pool, c, s, datas, ops, obs)
		return
	}
	if pool == nil || !modelApplies(s) || obs.Panic != "" || obs.Ctor != "" {
		return
	}
	if failAt > 0 && buildName == "asm" && VerifLevel() >= 1 {
		// under destination faults what the destination has accepted, and which call meets the fault,
		// depend on where the packer ends its chunks; the assembly packers end them elsewhere than the
		// model's portable one.  Faulted histories are compared byte for byte at level 0 and in the
		// build without assembly; at the other levels the direct C14 oracles apply.
		rep.Count("model:faulted-history-not-compared-at-this-level")
		return
	}
	if !modelTimeLeft() {
		rep.Count("model:skipped-time-budget")
		return
	}
	budget := 70000
	if modelTier == "thorough" {
		budget = 150000
	}
	total := 0
	for i, op := range ops {
		if op.K == "w" {
			total += opLen(datas, ops, i)
		}
	}
	if modelTier == "thorough" && total > 20000 && (total%3 != 0) {
		rep.Count("model:skipped-sampled-out")
		return
	}
	modelSeq := uint64(total)*1315423911 + uint64(len(ops))*2654435761 + uint64(failAt)*97
	if modelTier != "thorough" && (rep.Prop == "C16" || rep.Prop == "C14") && total > 40000 {
		rep.Count("model:skipped-too-large")
		return
	}
	if modelTier != "thorough" && rep.Prop == "C16" && total <= 3000 && modelSeq%3 != 0 {
		rep.Count("model:skipped-sampled-out")
		return
	}
	if modelTier != "thorough" && (rep.Prop == "C16" || rep.Prop == "C14") && total > 3000 && modelSeq%16 != 0 {
		rep.Count("model:skipped-sampled-out")
		return
	}
	if modelTier != "thorough" && total > 30000 && (!(buildName == "asm" && VerifLevel() == 0) || total%3 != 0) {
		// quick tier: the largest histories are compared on one target only
		rep.Count("model:skipped-sampled-out")
		return
	}
	if modelTier != "thorough" && total > 9000 && total%4 != 0 {
		// quick tier: every small history, one in four of the larger ones
		rep.Count("model:skipped-sampled-out")
		return
	}
	if !modelAffordable(datas, ops, budget) {
		rep.Count("model:skipped-too-large")
		return
	}
	m, err := pool.ModelW(s, datas, ops, failAt)
	if err != nil {
		rep.Note("model driver error: " + err.Error())
		return
	}
	rep.mu.Lock()
	rep.ModelCases++
	rep.mu.Unlock()
	rep.Count("model:compared")
	rep.mu.Lock()
	rep.Hist["model:blocks-validated"] += m.Events
	rep.mu.Unlock()
	diff := ""
	switch {
	case m.OOB:
		diff = "the model reports an out-of-bounds access or an exhausted loop bound"
	case !m.EventsOK:
		diff = "a block of the model's trace fails event_ok_b (code lengths over-subscribed, above the limit or missing for a used symbol): the premise of the codec theorems does not hold for this history"
	case len(m.Res) != len(obs.Res):
		diff = fmt.Sprintf("model has %d results, implementation %d", len(m.Res), len(obs.Res))
	}
	if diff == "" {
		for i := range obs.Res {
			if m.Res[i].N != obs.Res[i].N || (m.Res[i].Err != "") != (obs.Res[i].Err != "") {
				diff = fmt.Sprintf("op %d (%s): model returns (n=%d, err=%v), implementation (n=%d, err=%q)", i, ops[i].K, m.Res[i].N, m.Res[i].Err != "", obs.Res[i].N, obs.Res[i].Err)
				break
			}
		}
	}
	if diff == "" && len(m.Dests) != len(obs.Dests) {
		diff = fmt.Sprintf("model has %d destinations, implementation %d", len(m.Dests), len(obs.Dests))
	}
	if diff == "" {
		for d := range obs.Dests {
			a, b := m.Dests[d], obs.Dests[d]
			ja, jb := bytes.Join(a, nil), bytes.Join(b, nil)
			if !bytes.Equal(ja, jb) {
				// the assembly packers hand over chunks that end at other points than the portable one's
				// (chunk boundaries are not compared at those levels): when a destination call FAILS, what
				// the destination accepted before it is therefore a different prefix of the same bytes
				if failAt > 0 && buildName == "asm" && VerifLevel() >= 1 && (isPrefix(ja, jb) || isPrefix(jb, ja)) && absInt(len(ja)-len(jb)) <= 64 {
					rep.Count("model:faulted-destination-prefix-differs")
					continue
				}
				diff = fmt.Sprintf("destination %d: bytes differ at offset %d (model %d bytes, implementation %d bytes)", d, firstDiff(ja, jb), len(ja), len(jb))
				break
			}
			if buildName == "asm" && VerifLevel() >= 1 {
				continue // assembly packers stop at different points: chunk boundaries are not compared
			}
			if len(a) != len(b) {
				diff = fmt.Sprintf("destination %d: same bytes but %d chunks in the model, %d Write calls in the implementation", d, len(a), len(b))
				break
			}
			for k := range a {
				if len(a[k]) != len(b[k]) {
					diff = fmt.Sprintf("destination %d: chunk %d has %d bytes in the model, %d in the implementation", d, k, len(a[k]), len(b[k]))
					break
				}
			}
			if diff != "" {
				break
			}
		}
	}
	if diff != "" {
		rep.mu.Lock()
		rep.ModelDiffs++
		rep.mu.Unlock()
		rep.Violate("model-mismatch", "", "writer model (coq/WModel wrun) vs implementation: "+diff, c)
	}
}

// ---- accelerated levels: the model re-run with the recorded match-finder answers (coq/WModel/Oracle.v) ----

func oracleApplies(s Setting) bool {
	return hooksAvailable && s.API == "flate" && s.Dict == nil && s.Accelerated() && s.Level != -2 && buildName == "asm" && VerifLevel() >= 1
}

// compareOracle re-runs the history with the recorder attached, checks the contract of every recorded
// call and compares the implementation's bytes with the model's run on the recorded answers.
func compareOracle(rep *Report, pool *DriverPool, c interface{}, s Setting, datas [][]byte, ops []Op, obs *WObs) {
	if pool == nil || !oracleApplies(s) || obs.Panic != "" || obs.Ctor != "" {
		return
	}
	total := 0
	for i, op := range ops {
		if op.K == "w" {
			total += opLen(datas, ops, i)
		}
	}
	if !modelTimeLeft() {
		rep.Count("oracle:skipped-time-budget")
		return
	}
	budget := 70000
	if modelTier == "thorough" {
		budget = 150000
	}
	if !modelAffordable(datas, ops, budget) {
		rep.Count("oracle:skipped-too-large")
		return
	}
	if modelTier == "thorough" && total > 20000 && total%3 != 0 {
		rep.Count("oracle:skipped-sampled-out")
		return
	}
	if modelTier != "thorough" && (rep.Prop == "C16" || rep.Prop == "C14") && total > 40000 {
		rep.Count("oracle:skipped-too-large")
		return
	}
	if modelTier != "thorough" && total > 30000 && VerifLevel() != 4 {
		rep.Count("oracle:skipped-sampled-out")
		return
	}
	if modelTier != "thorough" && total > 6000 && total%8 != 0 {
		rep.Count("oracle:skipped-sampled-out")
		return
	}
	var calls []GenCall
	o2 := RunWRec(s, datas, ops, &calls)
	if !o2.Recorded {
		rep.Note("match-finder recorder could not be attached")
		return
	}
	for d := range obs.Dests {
		if d >= len(o2.Dests) || !bytes.Equal(o2.Bytes(d), obs.Bytes(d)) {
			rep.Violate("recording-changes-output", "", "the run with the match-finder recorder attached produced different bytes", c)
			return
		}
	}
	for i, k := range calls {
		if !k.Extended {
			rep.Violate("match-finder-contract", "", fmt.Sprintf("call %d: the tokens returned do not extend the tokens passed in", i), c)
			return
		}
	}
	var b strings.Builder
	w4 := 0
	if s.Win4K {
		w4 = 1
	}
	fmt.Fprintf(&b, "O 1 %d %d %s", s.Level, w4, encodeCalls(calls))
	cur := make([]int, len(datas))
	for _, op := range ops {
		switch op.K {
		case "w":
			d := datas[op.Src]
			a := cur[op.Src]
			e := a + op.N
			if e > len(d) {
				e = len(d)
			}
			cur[op.Src] = e
			b.WriteString(" w")
			if e > a {
				b.WriteString(hexs(d[a:e]))
			}
		default:
			b.WriteString(" " + op.K)
		}
	}
	ans, err := pool.Ask(b.String())
	if err != nil {
		rep.Note("model driver error: " + err.Error())
		return
	}
	f := strings.Split(ans, " ")
	if len(f) != 8 || f[0] != "O" {
		rep.Note("driver answered " + trunc(ans, 200))
		return
	}
	rep.mu.Lock()
	rep.ModelCases++
	rep.Hist["oracle:calls-checked"] += len(calls)
	rep.mu.Unlock()
	rep.Count("oracle:compared")
	diff := ""
	switch {
	case f[2] != "1":
		rep.Violate("match-finder-contract", "", "a recorded match-finder call violates the contract lz_ok (token invalid where it stands, distance beyond the window or the data, or the tokens do not decode to the input they cover)", c)
		return
	case f[1] != "0":
		diff = "the model did not make the recorded sequence of match-finder calls (arguments differ, or the implementation made fewer calls)"
	case f[4] != "0":
		diff = "the implementation made " + f[4] + " more match-finder calls than the model"
	case f[5] != "1":
		diff = "a block of the model's trace fails event_ok_b"
	}
	if diff == "" {
		ds := strings.Split(f[7], "|")
		if len(ds) != len(obs.Dests) {
			diff = fmt.Sprintf("model has %d destinations, implementation %d", len(ds), len(obs.Dests))
		} else {
			// a destination left without Flush or Close (abandoned by Reset, or the history simply
			// stops) holds whatever whole chunks the packer had handed over: the vector packers of
			// levels 3/4 keep up to a word more in their bit buffer than the portable one, so there the
			// two outputs must agree on their common prefix and differ in length by at most 8 bytes
			clean := make([]bool, 0, len(ds))
			last := ""
			for _, op := range ops {
				if op.K == "r" {
					clean = append(clean, last == "f" || last == "c")
					last = ""
					continue
				}
				last = op.K
			}
			clean = append(clean, last == "f" || last == "c")
			for d := range ds {
				mb := unhex(ds[d])
				ib := obs.Bytes(d)
				if bytes.Equal(mb, ib) {
					continue
				}
				if d < len(clean) && !clean[d] && (isPrefix(mb, ib) || isPrefix(ib, mb)) && absInt(len(mb)-len(ib)) <= 8 {
					rep.Count("oracle:abandoned-destination-tail-differs")
					continue
				}
				diff = fmt.Sprintf("destination %d: bytes differ at offset %d (model %d bytes, implementation %d bytes)", d, firstDiff(mb, ib), len(mb), len(ib))
				break
			}
		}
	}
	if diff != "" {
		rep.mu.Lock()
		rep.ModelDiffs++
		rep.mu.Unlock()
		rep.Violate("model-mismatch", "", "writer model with recorded match-finder answers (coq/WModel/Oracle.v orun) vs implementation: "+diff, c)
	}
}
