//go:build !verif

package main

type GenCall struct{ Extended bool }

func attachRecorder(w interface{}, sink *[]GenCall) bool { return false }
func encodeCalls(calls []GenCall) string                 { return "-" }

const hooksAvailable = false
