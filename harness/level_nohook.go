//go:build !verif

package main

// degraded mode: built without the verif hooks; the acceleration level cannot be read or forced
func verifArchLevel() int { return -1 }
