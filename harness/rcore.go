package main

import (
	"bufio"
	"bytes"
	stdflate "compress/flate"
	stdgzip "compress/gzip"
	stdzlib "compress/zlib"
	"crypto/sha256"
	"encoding/hex"
	"errors"
	"fmt"
	"io"
	"strings"
	"sync/atomic"
	"time"

	"github.com/intel/fastgo/compress/flate"
	"github.com/intel/fastgo/compress/gzip"
	"github.com/intel/fastgo/compress/zlib"
)

// StreamSpec names compressed bytes: synthesised, produced by a writer (fastgo or stdlib), or explicit.
type StreamSpec struct {
	Kind  string       `json:"kind"` // synth | fast | std | hex | concat
	Synth *SynthSpec   `json:"synth,omitempty"`
	W     *WCase       `json:"w,omitempty"`
	Hex   string       `json:"hex,omitempty"`
	Parts []StreamSpec `json:"parts,omitempty"`
	Flip  []int        `json:"flip,omitempty"`  // bit positions to flip after materialisation
	Subst []int        `json:"subst,omitempty"` // pairs (byte offset, new value)
}

// Materialize returns the stream and what it decodes to.  strict: complete codes everywhere
// (the Go standard library accepts it).  syncs: (data length, stream offset) at each Flush.
func (s StreamSpec) Materialize() (stream, data []byte, strict bool, shape string) {
	switch s.Kind {
	case "synth":
		stream, data, strict, shape = s.Synth.Synthesize()
		if strict && s.Synth.Fault == "" {
			// self-check of the synthesiser: a stream it claims to be strictly valid must be accepted by
			// compress/flate with exactly the data it claims; otherwise the generator is wrong, not the
			// code under test: the case falls back to a stream compress/flate itself writes for the data
			if so, sk, _ := stdInflate(nil, stream); sk != "EOF" || !bytes.Equal(so, data) {
				atomic.AddInt64(&synthSelfCheckFailed, 1)
				var b bytes.Buffer
				w, _ := stdflate.NewWriter(&b, 6)
				w.Write(data)
				w.Close()
				stream = b.Bytes()
				shape += "~fallback"
			}
		}
	case "fast", "std":
		d := s.W.datas()
		obs := RunW(s.W.Set, s.Kind == "std", d, s.W.Ops, 0)
		stream = obs.Bytes(0)
		data = written(d, s.W.Ops)[0]
		strict = true
		shape = s.Kind + ":" + s.W.Set.String()
	case "hex":
		stream = unhex(s.Hex)
		shape = "hex"
	case "concat":
		strict = true
		for _, p := range s.Parts {
			st, da, sr, sh := p.Materialize()
			stream = append(stream, st...)
			data = append(data, da...)
			strict = strict && sr
			shape += sh + "+"
		}
	}
	if len(s.Flip) > 0 || len(s.Subst) > 0 {
		stream = append([]byte(nil), stream...)
		for _, b := range s.Flip {
			if len(stream) > 0 {
				stream[(b/8)%len(stream)] ^= 1 << uint(b%8)
			}
		}
		for i := 0; i+1 < len(s.Subst); i += 2 {
			if len(stream) > 0 {
				stream[s.Subst[i]%len(stream)] = byte(s.Subst[i+1])
			}
		}
		strict = false
		shape += "~mut"
	}
	return
}

// number of synthesised "strictly valid" streams that compress/flate did not accept as such
var synthSelfCheckFailed int64

// SrcSpec describes the source the Reader reads from.
type SrcSpec struct {
	Kind  string `json:"kind"`            // bufio | bytes.Reader | bytes.Buffer | strings.Reader | bytereader | plain
	Buf   int    `json:"buf,omitempty"`   // bufio size
	Chunk string `json:"chunk,omitempty"` // all | one | rand | kN
	Seed  uint64 `json:"seed,omitempty"`
	Term  string `json:"term,omitempty"`  // eof | eofdata | err | errdata | gate
	After int    `json:"after,omitempty"` // bytes delivered before err/gate (only with err/errdata/gate)
	Wrap  bool   `json:"wrap,omitempty"`  // the injected error wraps io.EOF (errors.Is(err, io.EOF) holds)
}

func (s *schedSource) srcErr() error {
	if s.wrap {
		return errSourceWrapsEOF
	}
	return errSource
}

func (s SrcSpec) String() string {
	return fmt.Sprintf("%s/%d/%s/%s@%d", s.Kind, s.Buf, s.Chunk, s.Term, s.After)
}

var errSource = errors.New("verif: injected source failure")

// a source error that merely WRAPS io.EOF (errors.Is(err, io.EOF) holds, err == io.EOF does not): by
// the io.Reader contract it is an error like any other and must be reported as itself
var errSourceWrapsEOF = fmt.Errorf("verif: injected source failure (link closed in mid-message): %w", io.EOF)
var errGate = errors.New("verif: source asked for bytes beyond the gate")

type schedSource struct {
	data      []byte
	pos       int
	limit     int // bytes that may be delivered before the terminal behaviour
	chunk     string
	r         *Rng
	term      string
	reads     int
	delivered *int // bytes handed to the caller of the Reader so far (maintained by the runner)
	gateAt    int  // value of *delivered when the source was first asked beyond the gate, -1 = never
	termSeen  bool
	log       []int // size of every delivery
	wrap     bool
}

func (s *schedSource) next(max int) int {
	switch {
	case s.chunk == "one":
		return 1
	case s.chunk == "rand":
		return 1 + s.r.Intn(1+s.r.Intn(700))
	case strings.HasPrefix(s.chunk, "at"):
		// two deliveries: everything up to byte p, then the rest
		var p int
		fmt.Sscanf(s.chunk[2:], "%d", &p)
		if s.pos < p {
			return p - s.pos
		}
		return max
	case strings.HasPrefix(s.chunk, "k"):
		var k int
		fmt.Sscanf(s.chunk[1:], "%d", &k)
		if k < 1 {
			k = 1
		}
		return k
	}
	return max
}

func (s *schedSource) Read(p []byte) (int, error) {
	s.reads++
	if len(p) == 0 {
		return 0, nil
	}
	if s.pos < s.limit {
		n := s.next(len(p))
		if n > len(p) {
			n = len(p)
		}
		if n > s.limit-s.pos {
			n = s.limit - s.pos
		}
		copy(p, s.data[s.pos:s.pos+n])
		s.pos += n
		if len(s.log) < 200000 {
			s.log = append(s.log, n)
		}
		if s.pos == s.limit {
			switch s.term {
			case "eofdata":
				s.termSeen = true
				return n, io.EOF
			case "errdata":
				s.termSeen = true
				return n, s.srcErr()
			}
		}
		return n, nil
	}
	s.termSeen = true
	switch s.term {
	case "err", "errdata":
		return 0, s.srcErr()
	case "gate":
		if s.gateAt < 0 {
			s.gateAt = *s.delivered
		}
		return 0, errGate
	}
	return 0, io.EOF
}

type byteReaderSource struct{ *schedSource }

func (b byteReaderSource) ReadByte() (byte, error) {
	var one [1]byte
	for {
		n, err := b.schedSource.Read(one[:])
		if n == 1 {
			return one[0], nil
		}
		if err != nil {
			return 0, err
		}
	}
}

// RObs: what one run of a Reader shows.
type RObs struct {
	Bytes     []byte
	Err       string // kind of the final error
	ErrIsSrc  bool   // final error is identical (==) to the injected source error
	Left      []byte // bytes still readable from the source afterwards (nil when not observable)
	LeftKnown bool
	After     []string // results of three further Reads: "n/kind"
	Panic     string
	Hang      bool
	ReadLog   [][2]int // (len(p), n) of every Read call of the main loop (capped)
	SrcLog    []int    // bytes returned by every source Read that returned data or (0, nil) (capped)
	InKey     string   // digest of the compressed input (and prior stream): cross-level comparison only when equal
	SrcReads  int
	GateAt    int
	CtorErr   string
	HdrName   string
}

func (o *RObs) digestParts() [][]byte {
	// what is left in the source is a level-independent observable only after io.EOF (C05); after an
	// error no property fixes how far the source has been read.
	left := o.Left
	if o.Err != "EOF" {
		left = nil
	}
	return [][]byte{o.Bytes, []byte(o.Err), []byte(o.Panic), []byte(fmt.Sprint(o.Hang, o.ErrIsSrc, o.After, o.CtorErr)), left}
}

type readerAPI struct {
	r     io.Reader
	reset func(src io.Reader) error
}

// newReader builds a fastgo (std=false) or standard-library reader.
func newReader(api string, std bool, src io.Reader, dict []byte) (ra readerAPI, err error) {
	switch api {
	case "flate":
		if std {
			var r io.ReadCloser
			if dict != nil {
				r = stdflate.NewReaderDict(src, dict)
			} else {
				r = stdflate.NewReader(src)
			}
			return readerAPI{r, func(s io.Reader) error { return r.(stdflate.Resetter).Reset(s, dict) }}, nil
		}
		r := flate.NewReader(src)
		return readerAPI{r, func(s io.Reader) error { return r.(flate.Resetter).Reset(s, nil) }}, nil
	case "gzip", "gzip1": // gzip1: Multistream(false)
		multi := api == "gzip"
		if std {
			r, e := stdgzip.NewReader(src)
			if e != nil {
				return readerAPI{}, e
			}
			r.Multistream(multi)
			return readerAPI{r, func(s io.Reader) error { e := r.Reset(s); r.Multistream(multi); return e }}, nil
		}
		r, e := gzip.NewReader(src)
		if e != nil {
			return readerAPI{}, e
		}
		r.Multistream(multi)
		return readerAPI{r, func(s io.Reader) error { e := r.Reset(s); r.Multistream(multi); return e }}, nil
	case "zlib":
		if std {
			r, e := stdzlib.NewReaderDict(src, dict)
			if e != nil {
				return readerAPI{}, e
			}
			return readerAPI{r, func(s io.Reader) error { return r.(stdzlib.Resetter).Reset(s, dict) }}, nil
		}
		r, e := zlib.NewReaderDict(src, dict)
		if e != nil {
			return readerAPI{}, e
		}
		return readerAPI{r, func(s io.Reader) error { return r.(zlib.Resetter).Reset(s, dict) }}, nil
	}
	return readerAPI{}, fmt.Errorf("api %q", api)
}

// mkSource builds the source object and a function that reports what is left in it.
func mkSource(sp SrcSpec, data []byte, delivered *int) (src io.Reader, ss *schedSource, left func() ([]byte, bool)) {
	limit := len(data)
	if (sp.Term == "err" || sp.Term == "errdata" || sp.Term == "gate") && sp.After >= 0 && sp.After < limit {
		limit = sp.After
	}
	switch sp.Kind {
	case "bytes.Reader":
		r := bytes.NewReader(data)
		return r, nil, func() ([]byte, bool) { b, _ := io.ReadAll(r); return b, true }
	case "bytes.Buffer":
		r := bytes.NewBuffer(append([]byte(nil), data...))
		return r, nil, func() ([]byte, bool) { return r.Bytes(), true }
	case "strings.Reader":
		r := strings.NewReader(string(data))
		return r, nil, func() ([]byte, bool) { b, _ := io.ReadAll(r); return b, true }
	}
	ss = &schedSource{data: data, limit: limit, chunk: sp.Chunk, r: NewRng(sp.Seed ^ 0x50), term: sp.Term, delivered: delivered, gateAt: -1, wrap: sp.Wrap}
	rest := func() []byte { return ss.data[ss.pos:] }
	switch sp.Kind {
	case "bufio":
		n := sp.Buf
		if n < 16 {
			n = 16
		}
		br := bufio.NewReaderSize(ss, n)
		return br, ss, func() ([]byte, bool) {
			if ss.term != "eof" && ss.term != "eofdata" {
				return nil, false
			}
			b, _ := io.ReadAll(br)
			return b, true
		}
	case "bytereader":
		return byteReaderSource{ss}, ss, func() ([]byte, bool) { return rest(), ss.term == "eof" || ss.term == "eofdata" }
	default: // plain
		return struct{ io.Reader }{ss}, ss, func() ([]byte, bool) { return nil, false }
	}
}

type readSched struct {
	style string
	r     *Rng
}

func (rs *readSched) next() int {
	switch {
	case rs.style == "one":
		return 1
	case rs.style == "rand":
		return 1 + rs.r.Intn(1+rs.r.Intn(5000))
	case rs.style == "big":
		return 1 << 20
	case strings.HasPrefix(rs.style, "k"):
		var k int
		fmt.Sscanf(rs.style[1:], "%d", &k)
		if k < 1 {
			k = 1
		}
		return k
	}
	return 32 * 1024
}

// PriorSpec: what happened to the Reader before the Reset under test.
type PriorSpec struct {
	Stream StreamSpec `json:"stream"`
	Read   int        `json:"read"` // bytes to read before abandoning; -1 = until an error
	Cut    int        `json:"cut"`  // truncate the prior stream (-1 no)
}

// RunR runs a reader on data according to the source and read schedule.
// ctor: "new" | "reset" (constructed on an empty source, then Reset) | "reuse" (prior history, then Reset)
func RunR(api string, std bool, data []byte, dict []byte, sp SrcSpec, ctor string, prior *PriorSpec, reads string, readSeed uint64, limit int) (obs RObs) {
	done := make(chan struct{})
	var o RObs
	o.GateAt = -1
	kh := sha256.New()
	kh.Write(data)
	kh.Write([]byte{0})
	kh.Write(dict)
	go func() {
		defer close(done)
		defer func() {
			if r := recover(); r != nil {
				o.Panic = fmt.Sprint(r)
			}
		}()
		delivered := 0
		src, ss, left := mkSource(sp, data, &delivered)
		var ra readerAPI
		var err error
		switch ctor {
		case "new":
			ra, err = newReader(api, std, src, dict)
		case "reuse-same":
			// one buffered source holding a complete first stream followed by the input: the first
			// stream is read to its end, then the SAME source is passed to Reset (the pattern of gzip
			// members and of concatenated raw streams).  Only for flate on a caller-supplied bufio.Reader.
			first, _, _, _ := prior.Stream.Materialize()
			kh.Write(first)
			src, ss, left = mkSource(sp, append(append([]byte(nil), first...), data...), &delivered)
			ra, err = newReader(api, std, src, dict)
			if err == nil {
				io.Copy(io.Discard, ra.r)
				err = ra.reset(src)
			}
		default:
			var first []byte
			if ctor == "reuse" && prior != nil {
				first, _, _, _ = prior.Stream.Materialize()
				if prior.Cut >= 0 && prior.Cut < len(first) {
					first = first[:prior.Cut]
				}
				kh.Write(first)
			} else {
				first = emptyStream(api)
			}
			ra, err = newReader(api, std, bytes.NewReader(first), dict)
			if err == nil || api != "flate" {
				if err != nil {
					// the prior stream has a bad container header: build on an empty stream instead
					ra, err = newReader(api, std, bytes.NewReader(emptyStream(api)), dict)
				}
				if err == nil {
					if ctor == "reuse" && prior != nil {
						tmp := make([]byte, 777)
						got := 0
						for prior.Read < 0 || got < prior.Read {
							want := len(tmp)
							if prior.Read >= 0 && prior.Read-got < want {
								want = prior.Read - got
							}
							n, e := ra.r.Read(tmp[:want])
							got += n
							if e != nil || (n == 0 && want > 0 && got > 1<<28) {
								break
							}
						}
					} else {
						io.Copy(io.Discard, ra.r)
					}
					err = ra.reset(src)
				}
			}
		}
		if err != nil {
			o.CtorErr = errKind(err)
			o.ErrIsSrc = err == errSource || err == errSourceWrapsEOF
			if ss != nil {
				o.SrcReads = ss.reads
				o.GateAt = ss.gateAt
			}
			return
		}
		if g, ok := ra.r.(*gzip.Reader); ok {
			o.HdrName = g.Name
		}
		rs := &readSched{style: reads, r: NewRng(readSeed ^ 0x7ead)}
		var out bytes.Buffer
		zero := 0
		var ferr error
		var rbuf []byte
		for {
			k := rs.next()
			if cap(rbuf) < k {
				rbuf = make([]byte, k)
			}
			buf := rbuf[:k]
			n, e := ra.r.Read(buf)
			out.Write(buf[:n])
			delivered += n
			if len(o.ReadLog) < 60000 {
				o.ReadLog = append(o.ReadLog, [2]int{k, n})
			}
			if e != nil {
				ferr = e
				break
			}
			if n == 0 {
				zero++
				if zero > 2000 {
					o.Hang = true
					break
				}
			} else {
				zero = 0
			}
			if limit > 0 && out.Len() > limit {
				break
			}
		}
		o.Bytes = out.Bytes()
		o.Err = errKind(ferr)
		o.ErrIsSrc = ferr == errSource || ferr == errSourceWrapsEOF
		if ferr == errGate {
			o.Err = "GATE"
		}
		for i := 0; i < 3 && ferr != nil; i++ {
			buf := make([]byte, 100)
			n, e := ra.r.Read(buf)
			k := errKind(e)
			if e == errGate {
				k = "GATE"
			}
			o.After = append(o.After, fmt.Sprintf("%d/%s", n, k))
		}
		if ss != nil {
			o.SrcReads = ss.reads
			o.GateAt = ss.gateAt
			o.SrcLog = ss.log
		}
		o.Left, o.LeftKnown = left()
	}()
	select {
	case <-done:
		o.InKey = hex.EncodeToString(kh.Sum(nil)[:8])
		return o
	case <-time.After(120 * time.Second):
		return RObs{Hang: true, Err: "HANG", GateAt: -1}
	}
}

func emptyStream(api string) []byte {
	var b bytes.Buffer
	switch api {
	case "gzip", "gzip1":
		w := stdgzip.NewWriter(&b)
		w.Close()
	case "zlib":
		w := stdzlib.NewWriter(&b)
		w.Close()
	default:
		return []byte{0x03, 0x00}
	}
	return b.Bytes()
}

func isPrefix(a, b []byte) bool { return len(a) <= len(b) && bytes.Equal(a, b[:len(a)]) }
