package main

import (
	"bytes"
	stdflate "compress/flate"
	stdgzip "compress/gzip"
	stdzlib "compress/zlib"
	"errors"
	"fmt"
	"io"
	"time"

	"github.com/intel/fastgo/compress/flate"
	"github.com/intel/fastgo/compress/gzip"
	"github.com/intel/fastgo/compress/zlib"
)

// Setting selects a writer: which package, level, window, dictionary, gzip header.
type Setting struct {
	API   string    `json:"api"`             // flate | gzip | zlib
	Level int       `json:"level"`           // -2..9
	Win4K bool      `json:"win4k,omitempty"` // flate only
	Dict  *DataSpec `json:"dict,omitempty"`  // flate, zlib
	Hdr   *GzHeader `json:"hdr,omitempty"`
}

type GzHeader struct {
	Name    string `json:"name"` // hex of Latin-1 bytes as Go string runes
	Comment string `json:"comment"`
	Extra   string `json:"extra"` // hex, "" = nil, "-" = non-nil empty
	ModTime int64  `json:"mtime"`
	OS      byte   `json:"os"`
}

func (s Setting) String() string {
	x := fmt.Sprintf("%s/L%d", s.API, s.Level)
	if s.Win4K {
		x += "/4k"
	}
	if s.Dict != nil {
		x += "/dict:" + s.Dict.String()
	}
	return x
}

// Accelerated reports whether fastgo's own compressor (not the standard library's) serves it.
func (s Setting) Accelerated() bool {
	if s.Dict != nil {
		return false
	}
	if s.API == "flate" && s.Win4K {
		return s.Level != 0
	}
	return s.Level == -2 || s.Level == -1 || s.Level == 1 || s.Level == 2
}

func (s Setting) Window() int {
	if s.Win4K {
		return 4096
	}
	return 32768
}

// Op is one call on a writer.  K: "w" write N bytes taken from data stream Src,
// "f" Flush, "c" Close, "r" Reset onto a new destination.
type Op struct {
	K   string `json:"k"`
	N   int    `json:"n,omitempty"`
	Src int    `json:"src,omitempty"`
}

func opsString(ops []Op) string {
	var b bytes.Buffer
	for i, o := range ops {
		if i > 0 {
			b.WriteByte(' ')
		}
		if o.K == "w" {
			fmt.Fprintf(&b, "w%d", o.N)
			if o.Src != 0 {
				fmt.Fprintf(&b, "@%d", o.Src)
			}
		} else {
			b.WriteString(o.K)
		}
		if b.Len() > 300 {
			fmt.Fprintf(&b, " ...(%d ops)", len(ops))
			break
		}
	}
	return b.String()
}

type OpRes struct {
	N   int    `json:"n"`
	Err string `json:"err"` // "" = nil
}

// WObs is everything observable about one writer history.
type WObs struct {
	Res        []OpRes
	Dests      [][][]byte // per destination, the chunks it received
	Panic      string
	CallsAfter int // destination calls made after the first failure had been reported to the caller
	Ctor       string
	Recorded   bool // the match-finder recorder was attached
	// index of the operation in progress when the destination first returned an error, -1 = never
	FailedDuringOp int
	curOp          int
	failedSeen     bool
}

func (o *WObs) Bytes(dest int) []byte {
	if dest >= len(o.Dests) {
		return nil
	}
	return bytes.Join(o.Dests[dest], nil)
}

type anyWriter interface {
	Write([]byte) (int, error)
	Flush() error
	Close() error
}

type recDest struct {
	obs    *WObs
	idx    int
	failAt *int // counts down over all destinations; fails when it reaches 0
	once   bool // transient failure: only that one call fails
	err    error
}

func (d *recDest) Write(p []byte) (int, error) {
	if d.obs.failedSeen {
		d.obs.CallsAfter++
	}
	if *d.failAt > 0 {
		*d.failAt--
		if *d.failAt == 0 {
			*d.failAt = -1
			if d.once {
				*d.failAt = 0
			}
			if d.obs.FailedDuringOp < 0 {
				d.obs.FailedDuringOp = d.obs.curOp
			}
			return 0, d.err
		}
	}
	if *d.failAt < 0 {
		return 0, d.err
	}
	d.obs.Dests[d.idx] = append(d.obs.Dests[d.idx], append([]byte(nil), p...))
	return len(p), nil
}

var errInjected = errors.New("verif: injected destination failure")

func errStr(e error) string {
	if e == nil {
		return ""
	}
	return e.Error()
}

func (h *GzHeader) apply(name, comment *string, extra *[]byte, mt *time.Time, os *byte) {
	if h == nil {
		return
	}
	*name = string(latin1ToRunes(unhex(h.Name)))
	*comment = string(latin1ToRunes(unhex(h.Comment)))
	if h.Extra == "-" {
		*extra = []byte{} // non-nil and empty: FEXTRA with XLEN = 0
	} else if h.Extra != "" {
		*extra = unhex(h.Extra)
	}
	if h.ModTime != 0 {
		*mt = time.Unix(h.ModTime, 0)
	}
	*os = h.OS
}

func latin1ToRunes(b []byte) []rune {
	r := make([]rune, len(b))
	for i, x := range b {
		r[i] = rune(x)
	}
	return r
}

// newWriter builds the writer named by the setting, from fastgo (std=false) or from the
// standard library (std=true), together with its Reset function.
func newWriter(s Setting, std bool, dst io.Writer) (w anyWriter, reset func(io.Writer), err error) {
	var dict []byte
	if s.Dict != nil {
		dict = s.Dict.Generate()
	}
	switch s.API {
	case "flate":
		if std {
			var fw *stdflate.Writer
			if dict != nil {
				fw, err = stdflate.NewWriterDict(dst, s.Level, dict)
			} else {
				fw, err = stdflate.NewWriter(dst, s.Level)
			}
			if err != nil {
				return nil, nil, err
			}
			return fw, fw.Reset, nil
		}
		var fw *flate.Writer
		switch {
		case dict != nil:
			fw, err = flate.NewWriterDict(dst, s.Level, dict)
		case s.Win4K:
			fw, err = flate.NewWriterwWith4KWindow(dst, s.Level)
		default:
			fw, err = flate.NewWriter(dst, s.Level)
		}
		if err != nil {
			return nil, nil, err
		}
		return fw, fw.Reset, nil
	case "gzip":
		if std {
			gw, e := stdgzip.NewWriterLevel(dst, s.Level)
			if e != nil {
				return nil, nil, e
			}
			s.Hdr.apply(&gw.Name, &gw.Comment, &gw.Extra, &gw.ModTime, &gw.OS)
			return gw, func(d io.Writer) {
				gw.Reset(d)
				s.Hdr.apply(&gw.Name, &gw.Comment, &gw.Extra, &gw.ModTime, &gw.OS)
			}, nil
		}
		gw, e := gzip.NewWriterLevel(dst, s.Level)
		if e != nil {
			return nil, nil, e
		}
		s.Hdr.apply(&gw.Name, &gw.Comment, &gw.Extra, &gw.ModTime, &gw.OS)
		return gw, func(d io.Writer) {
			gw.Reset(d)
			s.Hdr.apply(&gw.Name, &gw.Comment, &gw.Extra, &gw.ModTime, &gw.OS)
		}, nil
	case "zlib":
		if std {
			zw, e := stdzlib.NewWriterLevelDict(dst, s.Level, dict)
			if e != nil {
				return nil, nil, e
			}
			return zw, zw.Reset, nil
		}
		zw, e := zlib.NewWriterLevelDict(dst, s.Level, dict)
		if e != nil {
			return nil, nil, e
		}
		return zw, zw.Reset, nil
	}
	return nil, nil, fmt.Errorf("unknown api %q", s.API)
}

// RunW executes a writer history.  failAt = k > 0 makes the k-th destination call (counted
// over the whole history) and every later one fail.
func RunW(s Setting, std bool, datas [][]byte, ops []Op, failAt int) (obs *WObs) {
	return RunWOpt(s, std, datas, ops, failAt, false)
}

// RunWOpt: once = the destination fails at call failAt only (a transient failure).
func RunWOpt(s Setting, std bool, datas [][]byte, ops []Op, failAt int, once bool) (obs *WObs) {
	return runWRec(s, std, datas, ops, failAt, once, nil)
}

// RunWRec also records every match-finder call (verif hook) into calls.
func RunWRec(s Setting, datas [][]byte, ops []Op, calls *[]GenCall) (obs *WObs) {
	return runWRec(s, false, datas, ops, 0, false, calls)
}

func runWRec(s Setting, std bool, datas [][]byte, ops []Op, failAt int, once bool, recordCalls *[]GenCall) (obs *WObs) {
	obs = &WObs{Dests: [][][]byte{nil}, FailedDuringOp: -1}
	fa := failAt
	mk := func() io.Writer {
		return &recDest{obs: obs, idx: len(obs.Dests) - 1, failAt: &fa, once: once, err: errInjected}
	}
	defer func() {
		if r := recover(); r != nil {
			obs.Panic = fmt.Sprint(r)
		}
	}()
	w, reset, err := newWriter(s, std, mk())
	if err != nil {
		obs.Ctor = err.Error()
		return obs
	}
	if recordCalls != nil && !std {
		obs.Recorded = attachRecorder(w, recordCalls)
	}
	cur := make([]int, len(datas))
	for oi, op := range ops {
		obs.curOp = oi
		var r OpRes
		switch op.K {
		case "w":
			d := datas[op.Src]
			a := cur[op.Src]
			b := a + op.N
			if b > len(d) {
				b = len(d)
			}
			cur[op.Src] = b
			n, e := w.Write(d[a:b])
			r = OpRes{n, errStr(e)}
		case "f":
			r = OpRes{0, errStr(w.Flush())}
		case "c":
			r = OpRes{0, errStr(w.Close())}
		case "r":
			obs.Dests = append(obs.Dests, nil)
			obs.failedSeen = false
			fa = 0 // the new destination is healthy
			reset(mk())
		}
		if r.Err != "" {
			obs.failedSeen = true
		}
		obs.Res = append(obs.Res, r)
	}
	return obs
}

// written returns the bytes the history passes to Write on each destination, in order
// (a Reset starts a new destination), stopping nowhere: it is the data the ops name.
func written(datas [][]byte, ops []Op) [][]byte {
	out := [][]byte{nil}
	cur := make([]int, len(datas))
	for _, op := range ops {
		switch op.K {
		case "w":
			d := datas[op.Src]
			a := cur[op.Src]
			b := a + op.N
			if b > len(d) {
				b = len(d)
			}
			cur[op.Src] = b
			out[len(out)-1] = append(out[len(out)-1], d[a:b]...)
		case "r":
			out = append(out, nil)
		}
	}
	return out
}

// ---- decoding helpers (oracles) ----

type DecRes struct {
	Out  []byte
	Err  string // "EOF" | "UEOF" | "CORRUPT" | other text
	Rest int    // bytes left unread in the source (when known), -1 otherwise
}

func errKind(e error) string {
	switch {
	case e == nil:
		return "nil"
	case e == io.EOF:
		return "EOF"
	case e == io.ErrUnexpectedEOF:
		return "UEOF"
	}
	var ce stdflate.CorruptInputError
	if errors.As(e, &ce) {
		return "CORRUPT"
	}
	switch e {
	case stdgzip.ErrChecksum, stdzlib.ErrChecksum, gzip.ErrChecksum, zlib.ErrChecksum:
		return "CHECKSUM"
	case stdgzip.ErrHeader, stdzlib.ErrHeader, gzip.ErrHeader, zlib.ErrHeader:
		return "HEADER"
	case stdzlib.ErrDictionary, zlib.ErrDictionary:
		return "DICT"
	}
	return "OTHER:" + e.Error()
}

func readAllKind(r io.Reader) ([]byte, string) {
	var buf bytes.Buffer
	tmp := make([]byte, 32*1024)
	for {
		n, err := r.Read(tmp)
		buf.Write(tmp[:n])
		if err != nil {
			return buf.Bytes(), errKind(err)
		}
	}
}

// stdInflate decodes with the Go standard library.
func stdInflate(dict, data []byte) (out []byte, kind string, rest int) {
	br := bytes.NewReader(data)
	var r io.ReadCloser
	if dict != nil {
		r = stdflate.NewReaderDict(br, dict)
	} else {
		r = stdflate.NewReader(br)
	}
	out, kind = readAllKind(r)
	return out, kind, br.Len()
}

// fastInflate decodes with fastgo's own Reader (no dictionary support there).
func fastInflate(data []byte) (out []byte, kind string, pan string) {
	defer func() {
		if r := recover(); r != nil {
			pan = fmt.Sprint(r)
		}
	}()
	r := flate.NewReader(bytes.NewReader(data))
	out, kind = readAllKind(r)
	return
}
