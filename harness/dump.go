package main

import (
	"encoding/json"
	"fmt"
	"os"
)

// dumpCase prints the materialised input of a reader case (debugging aid): hex of the stream.
func dumpCase(path string) {
	raw, _ := os.ReadFile(path)
	var v Violation
	json.Unmarshal(raw, &v)
	var rc RCase
	if json.Unmarshal(v.Case, &rc) == nil && rc.Prop != "" {
		st, data, strict, shape, _ := rc.input()
		fmt.Printf("{\"stream\":%q,\"data_len\":%d,\"strict\":%v,\"shape\":%q}\n", hexs(st), len(data), strict, shape)
	}
}
