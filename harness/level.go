//go:build verif

package main

import "github.com/intel/fastgo/compress/flate"

func verifArchLevel() int { return flate.VerifArchLevel() }
