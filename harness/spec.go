package main

import (
	"bufio"
	"fmt"
	"os"
	"os/exec"
	"strconv"
	"strings"
	"sync"
)

// Client side of the OCaml driver that runs the code extracted from the Coq development.

type driverProc struct {
	cmd *exec.Cmd
	in  *bufio.Writer
	out *bufio.Reader
}

type DriverPool struct {
	path string
	ch   chan *driverProc
	mu   sync.Mutex
	all  []*driverProc
	Reqs int64
}

func startDriver(path string) (*driverProc, error) {
	cmd := exec.Command("/bin/sh", "-c", "ulimit -s unlimited 2>/dev/null || ulimit -s 4000000 2>/dev/null; exec "+path)
	stdin, err := cmd.StdinPipe()
	if err != nil {
		return nil, err
	}
	stdout, err := cmd.StdoutPipe()
	if err != nil {
		return nil, err
	}
	cmd.Stderr = os.Stderr
	if err := cmd.Start(); err != nil {
		return nil, err
	}
	return &driverProc{cmd: cmd, in: bufio.NewWriterSize(stdin, 1<<20), out: bufio.NewReaderSize(stdout, 1<<20)}, nil
}

func NewDriverPool(path string, n int) (*DriverPool, error) {
	p := &DriverPool{path: path, ch: make(chan *driverProc, n)}
	for i := 0; i < n; i++ {
		d, err := startDriver(path)
		if err != nil {
			return nil, err
		}
		p.all = append(p.all, d)
		p.ch <- d
	}
	return p, nil
}

func (p *DriverPool) Close() {
	for _, d := range p.all {
		d.in.Flush()
		d.cmd.Process.Kill()
		d.cmd.Wait()
	}
}

// Ask sends one request line and returns the answer line.
func (p *DriverPool) Ask(req string) (string, error) {
	d := <-p.ch
	p.mu.Lock()
	p.Reqs++
	p.mu.Unlock()
	_, err := d.in.WriteString(req + "\n")
	if err == nil {
		err = d.in.Flush()
	}
	var line string
	if err == nil {
		line, err = d.out.ReadString('\n')
	}
	if err != nil {
		// restart the process so that the pool stays usable
		d.cmd.Process.Kill()
		d.cmd.Wait()
		nd, e2 := startDriver(p.path)
		if e2 == nil {
			p.mu.Lock()
			p.all = append(p.all, nd)
			p.mu.Unlock()
			p.ch <- nd
		}
		return "", fmt.Errorf("driver: %v", err)
	}
	p.ch <- d
	return strings.TrimRight(line, "\n"), nil
}

// SpecResult is the verdict of the reference inflater (Coq: Spec/Inflate.v).
type SpecResult struct {
	Status  string // done | need | corrupt | fuel
	BitPos  int
	MaxDist int
	Out     []byte
	Syncs   [][2]int // (output length, byte offset) after each empty stored block
}

func (p *DriverPool) Inflate(dict, data []byte) (SpecResult, error) {
	ans, err := p.Ask("I " + hexs(dict) + " " + hexs(data))
	if err != nil {
		return SpecResult{}, err
	}
	f := strings.Split(ans, " ")
	if len(f) != 6 || f[0] != "I" {
		return SpecResult{}, fmt.Errorf("driver answered %q", trunc(ans, 200))
	}
	r := SpecResult{Status: f[1]}
	r.BitPos, _ = strconv.Atoi(f[2])
	r.MaxDist, _ = strconv.Atoi(f[3])
	r.Out = unhex(f[4])
	if f[5] != "-" {
		for _, s := range strings.Split(f[5], ",") {
			ab := strings.Split(s, ":")
			a, _ := strconv.Atoi(ab[0])
			b, _ := strconv.Atoi(ab[1])
			r.Syncs = append(r.Syncs, [2]int{a, b})
		}
	}
	return r, nil
}

func trunc(s string, n int) string {
	if len(s) > n {
		return s[:n] + "..."
	}
	return s
}
