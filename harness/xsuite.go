package main

import (
	"crypto/sha256"
	"fmt"
	"runtime"
	"sync"
)

func init() { suites["C17"] = suiteC17 }

// XJob is one independent instance with its workload.
type XJob struct {
	Prop string `json:"property"`
	ID   string `json:"id"`
	W    *WCase `json:"w,omitempty"`
	R    *RCase `json:"r,omitempty"`
}

func (j *XJob) run() string {
	h := sha256.New()
	if j.W != nil {
		d := j.W.datas()
		o := RunW(j.W.Set, false, d, j.W.Ops, j.W.FailAt)
		for _, dst := range o.Dests {
			for _, ch := range dst {
				h.Write(ch)
			}
			h.Write([]byte{0xff})
		}
		fmt.Fprint(h, o.Res, o.Panic)
	}
	if j.R != nil {
		st, _, _, _, dict := j.R.input()
		o := RunR(j.R.API, false, st, dict, j.R.Src, j.R.Ctor, j.R.Prior, j.R.Reads, j.R.RSeed, 0)
		for _, p := range o.digestParts() {
			h.Write(p)
			h.Write([]byte{0xfe})
		}
	}
	return fmt.Sprintf("%x", h.Sum(nil)[:12])
}

func (j *XJob) sample() string {
	if j.W != nil {
		return "writer " + j.W.sample()
	}
	return "reader " + j.R.sample()
}

func suiteC17(c *ctx) {
	c.rep.Rule = "sets of 8..48 independent instances (flate/gzip/zlib Writers at all settings incl. failing destinations and Reset, Readers on valid, truncated and malformed streams with several source schedules) run concurrently, one goroutine each, repeated with GOMAXPROCS 1, 2, 4, 16; every instance's complete observation is compared with its solo run; the same suite is also run in a binary built with -race; distinct = distinct instances"
	r := NewRng(c.seed ^ 0xC17)
	var jobs []*XJob
	for i := 0; i < c.n(72); i++ {
		j := &XJob{Prop: "C17", ID: fmt.Sprintf("C17-%d", i)}
		switch i % 3 {
		case 0:
			s := pickSetting(r, []string{"flate", "flate", "gzip", "zlib"}, r.Intn(3) != 0)
			j.W = genHistory(r, "C17", i, s, false, true)
			if j.W.Datas[0].N > 80000 {
				j.W.Datas[0].N = 80000
			}
			if r.Intn(4) == 0 {
				j.W.FailAt = 1 + r.Intn(4)
			}
			if r.Intn(4) == 0 {
				j.W.Ops = append(j.W.Ops, Op{K: "r"}, Op{K: "w", N: 3000}, Op{K: "c"})
			}
		case 1:
			rc, _ := genC03Case(r, i)
			j.R = rc
		default:
			api := r.PickS([]string{"flate", "gzip", "zlib"})
			j.R = &RCase{Prop: "C17", API: api, Stream: genValidStream(r, api), Cut: -1, Src: pickSrc(r), Ctor: r.PickS([]string{"new", "reset"}), Reads: r.PickS([]string{"big", "rand", "k257", "k3"}), RSeed: r.U64()}
			if j.R.Stream.Kind == "synth" && j.R.Stream.Synth.Blocks > 50 {
				j.R.Stream.Synth.Blocks = 40
			}
		}
		if i%6 == 5 {
			// many small dynamic blocks with deep codes (long-code sub-tables, header scratch space):
			// the part of the decoder with the most per-block set-up work
			j.R = &RCase{Prop: "C17", API: "flate", Stream: StreamSpec{Kind: "synth", Synth: &SynthSpec{Seed: r.U64(), Blocks: 120 + r.Intn(200), Size: r.Pick([]int{5, 40, 300}), Kinds: "d"}},
				Cut: -1, Src: pickSrc(r), Ctor: "new", Reads: r.PickS([]string{"big", "rand", "k257"}), RSeed: r.U64()}
			j.W = nil
		}
		jobs = append(jobs, j)
	}
	// a Reader recycled onto another source must leave the buffer it once borrowed (and the next
	// Reader on it) alone
	for i := 0; i < c.n(24); i++ {
		checkAlias(c.rep, &aliasCase{Prop: "C17", ID: fmt.Sprintf("C17-a%d", i), API: []string{"gzip", "zlib", "flate"}[i%3], Buf: r.Pick([]int{16, 512, 4096, 65536}),
			N1: r.Pick([]int{5, 3000, 70000}), N2: r.Pick([]int{2000, 40000, 200000}), Seed: r.U64()})
	}
	solo := make([]string, len(jobs))
	for i, j := range jobs {
		solo[i] = j.run()
		c.rep.Eval(j.ID, j.sample())
	}
	old := runtime.GOMAXPROCS(0)
	defer runtime.GOMAXPROCS(old)
	rounds := 0
	for _, procs := range []int{1, 2, 4, 16} {
		runtime.GOMAXPROCS(procs)
		for rep := 0; rep < c.n(2); rep++ {
			// a random subset of 8..48 instances, all started together
			perm := make([]int, len(jobs))
			for i := range perm {
				perm[i] = i
			}
			for i := len(perm) - 1; i > 0; i-- {
				k := r.Intn(i + 1)
				perm[i], perm[k] = perm[k], perm[i]
			}
			sub := perm[:min2(len(perm), r.Range(8, 48))]
			got := make([]string, len(sub))
			var wg sync.WaitGroup
			start := make(chan struct{})
			for k, idx := range sub {
				wg.Add(1)
				go func(k, idx int) {
					defer wg.Done()
					<-start
					got[k] = jobs[idx].run()
				}(k, idx)
			}
			close(start)
			wg.Wait()
			rounds++
			for k, idx := range sub {
				c.rep.Evaluations++
				if got[k] != solo[idx] {
					c.rep.Violate("differs-from-solo-run", "", fmt.Sprintf("GOMAXPROCS=%d: instance %s produced a different observation when run concurrently with %d others", procs, jobs[idx].ID, len(sub)-1), jobs[idx])
				}
			}
		}
	}
	c.rep.Hist["rounds"] = rounds
}
