package main

import (
	"bytes"
	stdflate "compress/flate"
	stdgzip "compress/gzip"
	stdzlib "compress/zlib"
	"fmt"
	"io"

	"github.com/intel/fastgo/compress/flate"
	"github.com/intel/fastgo/compress/gzip"
	"github.com/intel/fastgo/compress/zlib"
)

// decodeContainer decodes a complete flate/gzip/zlib output with the standard library.
func decodeContainer(s Setting, out []byte, dict []byte) ([]byte, string) {
	switch s.API {
	case "flate":
		o, k, _ := stdInflate(dict, out)
		return o, k
	case "gzip":
		r, err := stdgzip.NewReader(bytes.NewReader(out))
		if err != nil {
			return nil, "HDR:" + errKind(err)
		}
		return readAllKind(r)
	case "zlib":
		r, err := stdzlib.NewReaderDict(bytes.NewReader(out), dict)
		if err != nil {
			return nil, "HDR:" + errKind(err)
		}
		return readAllKind(r)
	}
	return nil, "?"
}

// ---------- C09: two partitions of the same data with the same Flush positions ----------

func genC09(r *Rng, i int) *WCase {
	s := pickSetting(r, []string{"flate", "flate", "flate", "gzip", "zlib"}, true)
	n := pickSize(r, s, r.Intn(4) == 0)
	c := &WCase{Prop: "C09", ID: fmt.Sprintf("C09-%d", i), Set: s, Datas: []DataSpec{pickData(r, s, n)}}
	// flush positions (byte offsets), then two partitions that respect them
	var cuts []int
	for k := r.Intn(4); k > 0; k-- {
		cuts = append(cuts, r.Intn(n+1))
	}
	if r.Intn(6) == 0 {
		cuts = append(cuts, 0)
	}
	if r.Intn(6) == 0 {
		cuts = append(cuts, n)
	}
	sortInts(cuts)
	mk := func() []Op {
		var ops []Op
		pos := 0
		for _, cut := range append(append([]int{}, cuts...), n) {
			seg := cut - pos
			ops = append(ops, partition(r, seg, 0, s, false)...)
			pos = cut
			ops = append(ops, Op{K: "f"})
		}
		ops[len(ops)-1] = Op{K: "c"}
		return ops
	}
	c.Ops = mk()
	c.Ops2 = mk()
	return c
}

// genC09Directed: partitions that meet the writer's buffers exactly.  Dynamic levels: a Flush taken
// when the input buffer holds between 2W and 2W+257 bytes, then writes that exactly fill the rest
// of the buffer (in one piece in one partition, in small pieces or as part of a larger write in the
// other).  Huffman-only: a write that ends when exactly 65535 / 65536 / 65537 bytes are buffered
// with more to follow, against one large write.
func genC09Directed(r *Rng, i int) *WCase {
	s := pickSetting(r, []string{"flate", "flate", "flate", "gzip", "zlib"}, true)
	c := &WCase{Prop: "C09", ID: fmt.Sprintf("C09-d%d", i), Set: s}
	pieces := func(n int) []Op {
		var ops []Op
		switch r.Intn(3) {
		case 0:
			for j := 0; j < n; j++ {
				ops = append(ops, Op{K: "w", N: 1})
			}
		case 1:
			for n > 0 {
				k := 1 + r.Intn(n)
				ops = append(ops, Op{K: "w", N: k})
				n -= k
			}
		default:
			ops = append(ops, Op{K: "w", N: n})
		}
		return ops
	}
	if i%12 == 7 {
		// one very large Write (>= 128 KiB) issued after a small one, against the same data in pieces
		small := r.Pick([]int{1, 7, 300, 5000, 40000})
		big := 131072 + r.Pick([]int{0, 0, 1, 5000}) - r.Intn(2)*r.Intn(2)
		n := small + big
		c.Datas = []DataSpec{{Gen: r.PickS([]string{"text", "uni3", "plant300", "rnd", "run"}), Seed: r.U64(), N: n}}
		c.Ops = []Op{{K: "w", N: small}, {K: "w", N: big}, {K: "c"}}
		c.Ops2 = []Op{{K: "w", N: small}, {K: "w", N: big / 2}, {K: "w", N: big - big/2}, {K: "c"}}
		if r.Bool() {
			c.Ops2 = []Op{{K: "w", N: n}, {K: "c"}}
		}
		return c
	}
	if s.Level == -2 {
		first := 65536*(1+r.Intn(2)) + r.Range(-1, 1)
		rest := r.Pick([]int{1, 2, 700, 66000})
		n := first + rest
		c.Datas = []DataSpec{{Gen: r.PickS([]string{"text", "rnd", "uni3", "fib"}), Seed: r.U64(), N: n}}
		c.Ops = []Op{{K: "w", N: first}, {K: "w", N: rest}, {K: "c"}}
		c.Ops2 = []Op{{K: "w", N: n}, {K: "c"}}
		if r.Intn(3) == 0 {
			c.Ops2 = []Op{{K: "w", N: first - 1}, {K: "w", N: rest + 1}, {K: "c"}}
		}
		return c
	}
	w := s.Window()
	k := r.Intn(258)
	fill := 258 - k
	extra := r.Pick([]int{0, 1, 300, 5000})
	n := 2*w + 258 + extra
	c.Datas = []DataSpec{{Gen: r.PickS([]string{"text", "rnd", "uni3", "run", "plant300"}), Seed: r.U64(), N: n}}
	c.Ops = append([]Op{{K: "w", N: 2*w + k}, {K: "f"}, {K: "w", N: fill}}, append(pieces(extra), Op{K: "c"})...)
	var o2 []Op
	o2 = append(o2, pieces(2*w+k)[:0]...)
	if r.Bool() {
		o2 = append(o2, Op{K: "w", N: w}, Op{K: "w", N: w + k})
	} else {
		o2 = append(o2, Op{K: "w", N: 2*w + k})
	}
	o2 = append(o2, Op{K: "f"})
	switch r.Intn(3) {
	case 0:
		o2 = append(o2, Op{K: "w", N: fill + extra})
	case 1:
		o2 = append(o2, pieces(fill)...)
		o2 = append(o2, pieces(extra)...)
	default:
		o2 = append(o2, pieces(fill + extra)...)
	}
	c.Ops2 = append(o2, Op{K: "c"})
	return c
}

func sortInts(a []int) {
	for i := 1; i < len(a); i++ {
		for j := i; j > 0 && a[j-1] > a[j]; j-- {
			a[j-1], a[j] = a[j], a[j-1]
		}
	}
}

func checkC09(rep *Report, pool *DriverPool, c *WCase) {
	datas := c.datas()
	o1 := RunW(c.Set, false, datas, c.Ops, 0)
	o2 := RunW(c.Set, false, datas, c.Ops2, 0)
	compareModel(rep, pool, c, c.Set, datas, c.Ops, 0, o1)
	compareModel(rep, pool, c, c.Set, datas, c.Ops2, 0, o2)
	key := fmt.Sprintf("%s|%s|%d|%d|%d", c.Set, c.Datas[0].Gen, c.Datas[0].N, len(c.Ops), len(c.Ops2))
	if len(c.Ops) == len(c.Ops2) && opsString(c.Ops) == opsString(c.Ops2) {
		key = ""
	}
	rep.Eval(key, c.sample())
	rep.Count("setting:" + c.Set.String())
	rep.Count("data:" + c.Datas[0].Gen)
	rep.Count(sizeBucket(c.Datas[0].N))
	if o1.Panic != "" || o2.Panic != "" {
		rep.Violate("panic", "", o1.Panic+o2.Panic, c)
		return
	}
	b1, b2 := o1.Bytes(0), o2.Bytes(0)
	if !bytes.Equal(b1, b2) {
		rep.Violate("partition-dependent-output", "", fmt.Sprintf("outputs differ: %d vs %d bytes, first difference at byte %d", len(b1), len(b2), firstDiff(b1, b2)), c)
	}
	rep.Digest(c.ID, []byte(fmt.Sprint(bytes.Equal(b1, b2))))
}

// ---------- C12: Reset after an arbitrary history ----------

func genAnyOps(r *Rng, s Setting, src int, n int, closeP int) []Op {
	ops := partition(r, n, src, s, true)
	if r.Intn(closeP) == 0 {
		ops = append(ops, Op{K: "c"})
		if r.Intn(3) == 0 {
			ops = append(ops, Op{K: "w", N: 5, Src: src}, Op{K: "f"})
		}
	}
	return ops
}

func genC12(r *Rng, i int) *WCase {
	s := pickSetting(r, []string{"flate", "flate", "flate", "gzip", "zlib"}, r.Intn(4) != 0)
	n1 := pickSize(r, s, false)
	if r.Intn(3) == 0 {
		n1 = 2*s.Window() + 258 + r.Intn(3000) // pending tokens without a Flush
	}
	n2 := pickSize(r, s, false)
	c := &WCase{Prop: "C12", ID: fmt.Sprintf("C12-%d", i), Set: s,
		Datas: []DataSpec{pickData(r, s, n1), pickData(r, s, n2)}}
	h1 := genAnyOps(r, s, 0, n1, 3)
	if r.Intn(3) == 0 && len(h1) > 0 {
		// abandon without Flush: strip trailing flush/close
		for len(h1) > 0 && h1[len(h1)-1].K != "w" {
			h1 = h1[:len(h1)-1]
		}
	}
	if r.Intn(4) == 0 {
		c.FailAt = 1 + r.Intn(6)
	}
	h2 := append(partition(r, n2, 1, s, true), Op{K: "c"})
	if i%5 == 2 {
		// Huffman-only: the first stream is closed cleanly with a length that is a multiple of the block
		// size (0 included): nothing is pending, the output cursor is just past the final empty block
		c.Set = Setting{API: r.PickS([]string{"flate", "flate", "gzip", "zlib"}), Level: -2, Win4K: false}
		k := r.Pick([]int{0, 0, 65536, 131072})
		c.Datas[0] = DataSpec{Gen: r.PickS([]string{"text", "rnd", "uni3"}), Seed: r.U64(), N: k}
		h1 = []Op{{K: "c"}}
		if k > 0 {
			h1 = []Op{{K: "w", N: k}, {K: "c"}}
		}
		c.FailAt = 0
		h2 = append(partition(r, n2, 1, c.Set, true), Op{K: "c"})
	}
	c.Ops = append(append(h1, Op{K: "r"}), h2...)
	if i%4 == 1 {
		// parked and taken again: two Resets in a row (onto different destinations), nothing in between
		c.Ops = append(append(h1, Op{K: "r"}, Op{K: "r"}), h2...)
	}
	c.Ops2 = h2
	return c
}

func checkC12(rep *Report, pool *DriverPool, c *WCase) {
	datas := c.datas()
	o1 := RunW(c.Set, false, datas, c.Ops, c.FailAt)
	o2 := RunW(c.Set, false, datas, c.Ops2, 0)
	compareModel(rep, pool, c, c.Set, datas, c.Ops, c.FailAt, o1)
	rep.Eval(fmt.Sprintf("%s|%s|%d|%s|%d|%d|%d", c.Set, c.Datas[0].Gen, c.Datas[0].N, c.Datas[1].Gen, c.Datas[1].N, len(c.Ops), c.FailAt), c.sample())
	rep.Count("setting:" + c.Set.String())
	hasClose, hasFlush := false, false
	for _, op := range c.Ops[:len(c.Ops)-len(c.Ops2)-1] {
		hasClose = hasClose || op.K == "c"
		hasFlush = hasFlush || op.K == "f"
	}
	rep.Count(fmt.Sprintf("h1:close=%v,flush=%v,fail=%v", hasClose, hasFlush, c.FailAt > 0))
	if o1.Panic != "" || o2.Panic != "" {
		rep.Violate("panic", "", o1.Panic+"|"+o2.Panic, c)
		return
	}
	k := len(c.Ops) - len(c.Ops2)
	for i := range c.Ops2 {
		a, b := o1.Res[k+i], o2.Res[i]
		if a.N != b.N || (a.Err != "") != (b.Err != "") {
			rep.Violate("reset-result", "", fmt.Sprintf("after Reset op %d (%s) returned (%d,%q); a fresh writer returns (%d,%q)", i, c.Ops2[i].K, a.N, a.Err, b.N, b.Err), c)
			return
		}
	}
	b1, b2 := o1.Bytes(len(o1.Dests)-1), o2.Bytes(0)
	if !bytes.Equal(b1, b2) {
		rep.Violate("reset-output", "", fmt.Sprintf("after Reset the writer emits %d bytes, a fresh writer %d bytes; first difference at byte %d", len(b1), len(b2), firstDiff(b1, b2)), c)
	}
	rep.Digest(c.ID, []byte(fmt.Sprint(bytes.Equal(b1, b2))))
}

// ---------- C14: failing destination at call k ----------

func genC14(r *Rng, i int) *WCase {
	s := pickSetting(r, []string{"flate", "flate", "flate", "gzip", "zlib"}, r.Intn(5) != 0)
	n := pickSize(r, s, false)
	if r.Intn(3) == 0 {
		n = r.Range(20000, 90000)
	}
	c := &WCase{Prop: "C14", ID: fmt.Sprintf("C14-%d", i), Set: s, Datas: []DataSpec{pickData(r, s, n), {Gen: "text", Seed: r.U64(), N: 3000}}}
	c.Ops = append(partition(r, n, 0, s, true), Op{K: "c"})
	if i%6 == 5 {
		// a container writer whose FIRST operation is Flush (the lazy header is written by it), with all
		// optional gzip header fields
		c.Set = Setting{API: r.PickS([]string{"gzip", "gzip", "zlib"}), Level: r.Pick([]int{-2, -1, 1, 2, 6, 0})}
		if c.Set.API == "gzip" {
			c.Set.Hdr = &GzHeader{Name: randLatin1(r, 5), Comment: randLatin1(r, 9), Extra: "0102", OS: 3}
		}
		c.Ops = append([]Op{{K: "f"}}, c.Ops...)
	}
	return c
}

// checkC14 runs the fault-free history, then re-runs it failing the destination at call k for
// every k (or a sample), each followed by further operations.
var c14pool *DriverPool

func checkC14(rep *Report, pool *DriverPool, c *WCase, r *Rng, maxK int) {
	c14pool = pool
	datas := c.datas()
	base := RunW(c.Set, false, datas, c.Ops, 0)
	if base.Panic != "" {
		rep.Violate("panic", "", base.Panic, c)
		return
	}
	calls := len(base.Dests[0])
	var ks []int
	if calls <= maxK {
		for k := 1; k <= calls; k++ {
			ks = append(ks, k)
		}
	} else {
		for k := 1; k <= maxK/3; k++ {
			ks = append(ks, k, calls-k+1)
		}
		for len(ks) < maxK {
			ks = append(ks, 1+r.Intn(calls))
		}
	}
	rep.Count("setting:" + c.Set.String())
	for ki, k := range ks {
		cc := *c
		cc.FailAt = k
		cc.Once = ki%3 == 2 // a transient failure: only call k fails
		extra := []Op{{K: "w", N: 10, Src: 1}, {K: "f"}, {K: "c"}, {K: "w", N: 0, Src: 1}, {K: "c"}, {K: "f"}}
		// rotate the extra ops so that each kind is the first call after the failure
		rot := r.Intn(len(extra))
		cc.Ops = append(append([]Op{}, c.Ops...), append(extra[rot:], extra[:rot]...)...)
		if ki%2 == 0 {
			// reuse after the fault: Reset onto a healthy destination, a fresh stream, Close
			cc.Ops = append(cc.Ops, Op{K: "r"}, Op{K: "w", N: r.Pick([]int{0, 17, 3000}), Src: 1}, Op{K: "c"})
		}
		checkC14One(rep, &cc, datas)
	}
}

func checkC14One(rep *Report, c *WCase, datas [][]byte) {
	obs := RunWOpt(c.Set, false, datas, c.Ops, c.FailAt, c.Once)
	if !c.Once {
		compareModel(rep, c14pool, c, c.Set, datas, c.Ops, c.FailAt, obs)
	}
	rep.Eval(fmt.Sprintf("%s|%s|%d|%d|k%d", c.Set, c.Datas[0].Gen, c.Datas[0].N, len(c.Ops), c.FailAt), c.sample())
	if obs.Panic != "" {
		rep.Violate("panic-after-failure", classifyC14(c), obs.Panic, c)
		return
	}
	first := -1
	for i, r := range obs.Res {
		if r.Err != "" {
			first = i
			break
		}
	}
	if first < 0 {
		// every operation reported success although the destination failed
		rep.Violate("failure-not-reported", "", fmt.Sprintf("destination failed at call %d but all %d operations returned nil", c.FailAt, len(obs.Res)), c)
		return
	}
	rep.Count("first-failure-in:" + c.Ops[first].K)
	if obs.FailedDuringOp >= 0 && obs.FailedDuringOp < len(obs.Res) && obs.Res[obs.FailedDuringOp].Err == "" {
		rep.Violate("failure-not-reported", "", fmt.Sprintf("the destination failed at call %d during op %d (%s), which returned nil", c.FailAt, obs.FailedDuringOp, c.Ops[obs.FailedDuringOp].K), c)
		return
	}
	if obs.Res[first].Err != errInjected.Error() {
		rep.Violate("wrong-error", "", fmt.Sprintf("op %d returned %q, expected the destination's error", first, obs.Res[first].Err), c)
	}
	for i := first + 1; i < len(obs.Res); i++ {
		if c.Ops[i].K == "r" {
			break
		}
		if obs.Res[i].Err == "" {
			rep.Violate("error-not-sticky", "", fmt.Sprintf("op %d (%s) returned nil after op %d had failed", i, c.Ops[i].K, first), c)
			return
		}
	}
	if obs.CallsAfter != 0 {
		rep.Violate("destination-touched-after-failure", "", fmt.Sprintf("%d destination calls after the failure had been reported", obs.CallsAfter), c)
	}
	// after Reset the writer must serve a complete valid stream again (the fault is forgotten)
	if len(obs.Dests) == 2 && len(c.Ops) >= 3 && c.Ops[len(c.Ops)-3].K == "r" {
		n := len(obs.Res)
		if obs.Res[n-1].Err != "" || obs.Res[n-2].Err != "" {
			rep.Violate("error-survives-reset", "", fmt.Sprintf("after Reset: Write returned %q, Close %q", obs.Res[n-2].Err, obs.Res[n-1].Err), c)
			return
		}
		want := written(datas, c.Ops)[1]
		var dict []byte
		if c.Set.Dict != nil {
			dict = c.Set.Dict.Generate()
		}
		got, kind := decodeContainer(c.Set, obs.Bytes(1), dict)
		if kind != "EOF" || !bytes.Equal(got, want) {
			rep.Violate("stream-after-reset", "", fmt.Sprintf("after a destination fault and Reset the new stream decodes to %d bytes, %s; expected %d bytes, EOF", len(got), kind, len(want)), c)
		}
	}
}

func classifyC14(c *WCase) string { return "" }

// ---------- C16: arbitrary call sequences, compared with the standard library ----------

var c16Letters = []Op{{K: "w", N: 0}, {K: "w", N: 37}, {K: "w", N: 70000}, {K: "f"}, {K: "c"}, {K: "r"}}

func genC16Exhaustive(maxLen int) [][]Op {
	var out [][]Op
	var rec func(cur []Op, l int)
	rec = func(cur []Op, l int) {
		if len(cur) > 0 {
			out = append(out, append([]Op{}, cur...))
		}
		if l == 0 {
			return
		}
		for _, o := range c16Letters {
			rec(append(cur, o), l-1)
		}
	}
	rec(nil, maxLen)
	return out
}

func checkC16(rep *Report, pool *DriverPool, c *WCase) {
	datas := c.datas()
	f := RunW(c.Set, false, datas, c.Ops, 0)
	s := RunW(c.Set, true, datas, c.Ops, 0)
	compareModel(rep, pool, c, c.Set, datas, c.Ops, 0, f)
	rep.Eval(fmt.Sprintf("%s|%s", c.Set, opsString(c.Ops)), c.sample())
	if f.Panic != "" {
		rep.Violate("panic", "", f.Panic, c)
		return
	}
	if s.Panic != "" {
		rep.Note("standard library panicked: " + s.Panic)
		return
	}
	for i := range c.Ops {
		if (f.Res[i].Err != "") != (s.Res[i].Err != "") {
			rep.Violate("error-differs-from-stdlib", "", fmt.Sprintf("op %d (%s): fastgo returned %q, the standard library %q", i, c.Ops[i].K, f.Res[i].Err, s.Res[i].Err), c)
			return
		}
	}
	// per destination: locate the first successful Close; nothing may be emitted after it,
	// and what was emitted up to it must be a complete stream of the data written before it.
	dest := 0
	closedAt := -1
	var lenAtClose int
	var cum int
	pre := [][]Op{nil}
	for i, op := range c.Ops {
		if op.K == "r" {
			dest++
			closedAt = -1
			pre = append(pre, nil)
			continue
		}
		pf := RunW(c.Set, false, datas, c.Ops[:i+1], 0)
		cum = len(pf.Bytes(dest))
		if closedAt >= 0 && cum != lenAtClose {
			rep.Violate("emits-after-close", "", fmt.Sprintf("op %d (%s) after the Close at op %d grew the output from %d to %d bytes", i, op.K, closedAt, lenAtClose, cum), c)
			return
		}
		if op.K == "c" && f.Res[i].Err == "" && closedAt < 0 {
			closedAt = i
			lenAtClose = cum
			out := pf.Bytes(dest)
			// data written to this destination before the Close
			w := written(datas, c.Ops[:i+1])
			data := w[len(w)-1]
			var dict []byte
			if c.Set.Dict != nil {
				dict = c.Set.Dict.Generate()
			}
			got, kind := decodeContainer(c.Set, out, dict)
			if kind != "EOF" || !bytes.Equal(got, data) {
				rep.Violate("stream-at-close", "", fmt.Sprintf("bytes emitted up to the Close at op %d decode to %d bytes, %s; expected %d bytes, EOF", i, len(got), kind, len(data)), c)
				return
			}
		}
	}
	rep.Digest(c.ID, []byte("ok"))
}

func checkC16Levels(rep *Report) {
	for lvl := -4; lvl <= 11; lvl++ {
		type ctor struct {
			name     string
			fast, st func() error
		}
		cs := []ctor{
			{"flate.NewWriter", func() error { _, e := flate.NewWriter(io.Discard, lvl); return e }, func() error { _, e := stdflate.NewWriter(io.Discard, lvl); return e }},
			{"flate.NewWriterDict", func() error { _, e := flate.NewWriterDict(io.Discard, lvl, []byte("abc")); return e }, func() error { _, e := stdflate.NewWriterDict(io.Discard, lvl, []byte("abc")); return e }},
			{"gzip.NewWriterLevel", func() error { _, e := gzip.NewWriterLevel(io.Discard, lvl); return e }, func() error { _, e := stdgzip.NewWriterLevel(io.Discard, lvl); return e }},
			{"zlib.NewWriterLevel", func() error { _, e := zlib.NewWriterLevel(io.Discard, lvl); return e }, func() error { _, e := stdzlib.NewWriterLevel(io.Discard, lvl); return e }},
			{"zlib.NewWriterLevelDict", func() error { _, e := zlib.NewWriterLevelDict(io.Discard, lvl, []byte("abc")); return e }, func() error { _, e := stdzlib.NewWriterLevelDict(io.Discard, lvl, []byte("abc")); return e }},
		}
		for _, c := range cs {
			var fe, se error
			pan := ""
			func() {
				defer func() {
					if r := recover(); r != nil {
						pan = fmt.Sprint(r)
					}
				}()
				fe, se = c.fast(), c.st()
			}()
			rep.Eval(fmt.Sprintf("ctor|%s|%d", c.name, lvl), fmt.Sprintf("%s(level=%d)", c.name, lvl))
			if pan != "" || (fe != nil) != (se != nil) {
				rep.Violate("constructor-level", "", fmt.Sprintf("%s(level %d): fastgo err=%v panic=%q, standard library err=%v", c.name, lvl, fe, pan, se), map[string]interface{}{"property": "C16", "kind": "ctor", "ctor": c.name, "level": lvl})
			}
		}
	}
}

// ---------- C20: output size ----------

func hash4Go(data uint32) uint32 {
	const prime = 0xB2D06057
	h := uint64(data)
	h *= prime
	h >>= 16
	h *= prime
	h >>= 16
	return uint32(h)
}

// periodHasCollision: do two distinct 4-grams of the periodic input share a slot of the Go match
// finder's hash table (12-bit mask at level 1, 15-bit otherwise)?  This is the matcher of the
// known finding F-C20.
func periodHasCollision(period []byte, level int) bool {
	mask := uint32(1<<15 - 1)
	if level == 1 {
		mask = 1<<12 - 1
	}
	p := len(period)
	seen := map[uint32]uint32{}
	for i := 0; i < p; i++ {
		g := uint32(period[i]) | uint32(period[(i+1)%p])<<8 | uint32(period[(i+2)%p])<<16 | uint32(period[(i+3)%p])<<24
		h := hash4Go(g) & mask
		if prev, ok := seen[h]; ok && prev != g {
			return true
		}
		seen[h] = g
	}
	return false
}

func checkC20(rep *Report, pool *DriverPool, c *WCase, periodic int) {
	datas := c.datas()
	obs := RunW(c.Set, false, datas, c.Ops, 0)
	// the cost theorems (C20_cost_identity, C20_block_cost) are about the writer model: tie it here too
	compareModel(rep, pool, c, c.Set, datas, c.Ops, 0, obs)
	n := len(datas[0])
	rep.Eval(fmt.Sprintf("%s|%s|%d|%d", c.Set, c.Datas[0].Gen, c.Datas[0].Seed%1000, n), c.sample())
	rep.Count("data:" + c.Datas[0].Gen)
	rep.Count("setting:" + c.Set.String())
	if obs.Panic != "" {
		rep.Violate("panic", "", obs.Panic, c)
		return
	}
	lastD := len(obs.Dests) - 1
	out := obs.Bytes(lastD)
	n = len(written(datas, c.Ops)[lastD])
	if len(out) > n+n/32+256 {
		rep.Violate("expansion-bound", "", fmt.Sprintf("%d input bytes became %d output bytes (bound %d)", n, len(out), n+n/32+256), c)
	}
	if periodic > 0 && n >= 65536 && c.Set.Level != -2 {
		bound := n/32 + 1200
		if len(out) > bound {
			class := ""
			if VerifLevel() == 0 && periodHasCollision(datas[0][:periodic], effLevel(c.Set)) {
				class = "F-C20-hash-collision-in-period"
			}
			rep.Violate("periodic-bound", class, fmt.Sprintf("period %d, %d input bytes became %d output bytes (bound %d)", periodic, n, len(out), bound), c)
		}
		rep.Count("periodic")
	}
	rep.Digest(c.ID, []byte(fmt.Sprint(len(out) <= n+n/32+256)))
}

func effLevel(s Setting) int {
	if s.Level == 1 {
		return 1
	}
	return 2
}
