package main

import (
	"fmt"
)

func init() {
	suites["C02"] = suiteC02
	suites["C03"] = suiteC03
	suites["C04"] = suiteC04
	suites["C05"] = suiteC05
	suites["C11"] = suiteC11
	suites["C13"] = suiteC13
	suites["C15"] = suiteC15
	suites["C18"] = suiteC18
}

func suiteC02(c *ctx) {
	c.rep.Rule = "streams accepted by compress/flate: synthesised block by block (stored incl. 65535 bytes at odd bit offsets, fixed, dynamic with random complete code shapes up to 15 bits, RLE across the literal/distance boundary, degenerate distance trees, empty blocks, thousands of tiny blocks, distance 32768, overlapping copies, length 258 both ways) and outputs of fastgo and compress/flate at all levels, read with varying destination sizes; distinct = distinct (block shape, read style, stream length)"
	r := NewRng(c.seed ^ 0xC02)
	var cases []*RCase
	for i := 0; i < c.n(420); i++ {
		rc := &RCase{Prop: "C02", ID: fmt.Sprintf("C02-%d", i), API: "flate", Stream: genValidStream(r, "flate"), Cut: -1,
			Src: SrcSpec{Kind: "bytes.Reader"}, Ctor: "new", Reads: readStyles[r.Intn(len(readStyles))], RSeed: r.U64()}
		if i%4 == 0 {
			rc.Src = pickSrc(r)
		}
		if rc.Reads == "one" && rc.Stream.Kind != "synth" {
			rc.Reads = "k3"
		}
		cases = append(cases, rc)
	}
	for i := 0; i < c.n(36); i++ {
		// output crossing the edge of the decoder's 64 KiB window inside packed multi-symbol
		// entries, with the source pausing at every byte (or at random points)
		rc := &RCase{Prop: "C02", ID: fmt.Sprintf("C02-e%d", i), API: "flate", Stream: StreamSpec{Kind: "synth", Synth: &SynthSpec{Seed: r.U64(), Blocks: 3, Size: i % 2, Kinds: "E"}}, Cut: -1,
			Src: SrcSpec{Kind: "bufio", Buf: r.Pick([]int{16, 64, 4096}), Chunk: r.PickS([]string{"one", "one", "rand"}), Seed: r.U64(), Term: "eof"}, Ctor: "new", Reads: r.PickS([]string{"big", "k3", "rand"}), RSeed: r.U64()}
		cases = append(cases, rc)
	}
	for i := 0; i < c.n(30); i++ {
		// the same with a match of length 258 ending just past the edge (L), and units <literal><match 258>
		// running up to the edge with the input split near its end (U)
		kinds := "L"
		if i%3 == 2 {
			kinds = "U"
		}
		st := StreamSpec{Kind: "synth", Synth: &SynthSpec{Seed: r.U64(), Blocks: 3, Size: 0, Kinds: kinds}}
		rc := &RCase{Prop: "C02", ID: fmt.Sprintf("C02-l%d", i), API: "flate", Stream: st, Cut: -1,
			Src: SrcSpec{Kind: "bufio", Buf: r.Pick([]int{16, 64, 4096}), Chunk: r.PickS([]string{"one", "rand", "all", "tail"}), Seed: r.U64(), Term: "eof"}, Ctor: "new", Reads: r.PickS([]string{"big", "k3", "rand"}), RSeed: r.U64()}
		if rc.Src.Chunk == "tail" {
			b, _, _, _ := st.Materialize()
			rc.Src.Chunk = fmt.Sprintf("at%d", max0(len(b)-r.Range(1, 16)))
			rc.Src.Buf = 4096
		}
		cases = append(cases, rc)
	}
	for i := 0; i < c.n(48); i++ {
		// a short block whose last literals and end-of-block code share one packed entry ends at the
		// edge of the output window (one before .. two after); as the final block with a long suffix
		// buffered behind it, or followed by further blocks
		rc := &RCase{Prop: "C02", ID: fmt.Sprintf("C02-b%d", i), API: "flate", Stream: StreamSpec{Kind: "synth", Synth: &SynthSpec{Seed: r.U64(), Blocks: 2, Size: i % 2, Kinds: "B"}}, Cut: -1,
			Src: SrcSpec{Kind: "bufio", Buf: r.Pick([]int{64, 4096, 8192, 65536}), Chunk: r.PickS([]string{"all", "all", "rand", "one"}), Seed: r.U64(), Term: "eof"}, Ctor: "new", Reads: r.PickS([]string{"big", "k3", "rand"}), RSeed: r.U64()}
		if i%2 == 1 || i%8 == 0 {
			rc.Suffix = hexs(r.Bytes(5000 + r.Intn(4000)))
		}
		if i%6 == 5 {
			rc.Src = SrcSpec{Kind: "bytes.Reader"}
		}
		cases = append(cases, rc)
	}
	parallelJ(len(cases), func(i int) interface{} { return cases[i] }, func(i int) { checkC02(c.rep, c.pool, cases[i]) })
}

func genC03Case(r *Rng, i int) (*RCase, bool) {
	rc := &RCase{Prop: "C03", ID: fmt.Sprintf("C03-%d", i), API: "flate", Cut: -1, Src: SrcSpec{Kind: "bytes.Reader"}, Ctor: "new",
		Reads: readStyles[r.Intn(len(readStyles))], RSeed: r.U64()}
	knownValid := false
	switch i % 5 {
	case 0: // truncation of a valid stream
		rc.Stream = genValidStream(r, "flate")
		if rc.Stream.Kind == "synth" && rc.Stream.Synth.Blocks > 50 {
			rc.Stream.Synth.Blocks = 6
		}
		st, _, _, _ := rc.Stream.Materialize()
		if len(st) > 0 {
			rc.Cut = r.Intn(len(st))
			if r.Intn(3) == 0 {
				rc.Cut = len(st) - 1 - r.Intn(min2(len(st), 12))
			}
			if rc.Cut < 0 {
				rc.Cut = 0
			}
		}
		knownValid = true
	default:
		rc.Stream = genMalformed(r)
	}
	if i%3 == 0 {
		rc.Ctor = "reuse"
		rc.Prior = &PriorSpec{Stream: genValidStream(r, "flate"), Read: r.Pick([]int{-1, -1, 0, 1, 100, 70000}), Cut: -1}
		if rc.Prior.Stream.Kind == "synth" && rc.Prior.Stream.Synth.Blocks > 50 {
			rc.Prior.Stream.Synth.Blocks = 4
		}
		if r.Intn(3) == 0 {
			// the previous stream had a dynamic block: its tables are what a missing clear would expose
			rc.Prior.Stream = StreamSpec{Kind: "synth", Synth: &SynthSpec{Seed: r.U64(), Blocks: 1 + r.Intn(3), Size: r.Pick([]int{40, 3000, 70000}), Kinds: "d"}}
		}
	}
	if i%7 == 0 {
		rc.Src = pickSrc(r)
	}
	if i%12 == 9 {
		// the reused Reader's previous stream stopped inside a block header (header bytes staged); the
		// input under test arrives in pieces, so that its first header is assembled in that staging area
		rc.Prior.Stream = StreamSpec{Kind: "synth", Synth: &SynthSpec{Seed: r.U64(), Blocks: 2, Size: 300, Kinds: r.PickS([]string{"d", "d", "s"})}}
		rc.Prior.Cut = r.Range(1, 40)
		rc.Prior.Read = -1
		rc.Src = SrcSpec{Kind: r.PickS([]string{"bufio", "plain"}), Buf: r.Pick([]int{16, 64, 4096}), Chunk: r.PickS([]string{"one", "one", "rand"}), Seed: r.U64(), Term: "eof"}
	}
	return rc, knownValid
}

func suiteC03(c *ctx) {
	c.rep.Rule = "malformed inputs: random bytes; valid streams with 1-3 bit flips or byte substitutions; synthesised streams with one injected fault per family (distance before the start, unassigned code of an incomplete literal or distance code, over-subscribed literal/distance/code-length code, no end-of-block code, repeat with nothing to repeat, run past the declared count, stored length check, reserved block type, symbols 286/287 and 30/31, empty distance code used), in the first or a later block; valid streams cut at a byte; each first in a fresh Reader or after another stream in a reused one; distinct = distinct (shape, length, constructor, read style, cut)"
	r := NewRng(c.seed ^ 0xC03)
	var cases []*RCase
	var kv []bool
	for i := 0; i < c.n(700); i++ {
		rc, k := genC03Case(r, i)
		cases = append(cases, rc)
		kv = append(kv, k)
	}
	// every-byte truncation of a few small streams
	for j := 0; j < c.n(6); j++ {
		s := genValidStream(r, "flate")
		if s.Kind == "synth" {
			s.Synth.Blocks = 1 + r.Intn(3)
			s.Synth.Size = r.Pick([]int{5, 60, 300})
		} else {
			s.W.Datas[0].N = r.Intn(600)
			s.W.Ops = []Op{{K: "w", N: s.W.Datas[0].N}, {K: "c"}}
		}
		st, _, _, _ := s.Materialize()
		for cut := 0; cut < len(st) && cut < 400; cut++ {
			cases = append(cases, &RCase{Prop: "C03", ID: fmt.Sprintf("C03-t%d-%d", j, cut), API: "flate", Stream: s, Cut: cut, Src: SrcSpec{Kind: "bytes.Reader"}, Ctor: "new", Reads: "big"})
			kv = append(kv, true)
		}
	}
	// every header/symbol fault placed in a LATER block (after blocks that have filled the decoder's
	// tables: a dynamic block without distance codes that uses a length symbol finds the previous
	// block's distance table, ...), and in the first block of a stream read through a reused Reader
	for j := 0; j < c.n(34); j++ {
		f := faultKinds[j%len(faultKinds)]
		sp := &SynthSpec{Seed: r.U64(), Blocks: 2 + r.Intn(2), Size: r.Pick([]int{40, 300, 3000}), Fault: f, Kinds: r.PickS([]string{"d", "d", "fd"})}
		sp.FaultB = 1 + r.Intn(sp.Blocks-1)
		if j%2 == 1 {
			sp.Fault = "empty-dist-used"
		}
		rc := &RCase{Prop: "C03", ID: fmt.Sprintf("C03-f%d", j), API: "flate", Stream: StreamSpec{Kind: "synth", Synth: sp}, Cut: -1, Src: SrcSpec{Kind: "bytes.Reader"}, Ctor: "new",
			Reads: r.PickS([]string{"big", "k257", "rand"}), RSeed: r.U64()}
		if j%4 >= 2 {
			sp.Blocks, sp.FaultB = 1+r.Intn(2), 0
			rc.Ctor = "reuse"
			rc.Prior = &PriorSpec{Stream: StreamSpec{Kind: "synth", Synth: &SynthSpec{Seed: r.U64(), Blocks: 1 + r.Intn(3), Size: r.Pick([]int{40, 3000}), Kinds: "d"}}, Read: -1, Cut: -1}
		}
		cases = append(cases, rc)
		kv = append(kv, false)
	}
	// dynamic headers full of long zero runs (code-length symbol 18 with its 7 extra bits), cut at
	// every byte: the input ends inside or right after the run-length items
	for j := 0; j < c.n(10); j++ {
		s := StreamSpec{Kind: "synth", Synth: &SynthSpec{Seed: r.U64(), Blocks: 1 + r.Intn(2), Size: r.Pick([]int{1, 3, 30}), Kinds: "Z"}}
		st, _, _, _ := s.Materialize()
		for cut := 1; cut < len(st) && cut < 120; cut++ {
			cases = append(cases, &RCase{Prop: "C03", ID: fmt.Sprintf("C03-z%d-%d", j, cut), API: "flate", Stream: s, Cut: cut, Src: SrcSpec{Kind: "bytes.Reader"}, Ctor: "new", Reads: "big"})
			kv = append(kv, true)
		}
	}
	// regression corpus: inputs of earlier findings, kept verbatim
	for j, h := range regressionCorpus {
		cases = append(cases, &RCase{Prop: "C03", ID: fmt.Sprintf("C03-corpus%d", j), API: "flate", Stream: StreamSpec{Kind: "hex", Hex: h}, Cut: -1, Src: SrcSpec{Kind: "bytes.Reader"}, Ctor: "new", Reads: "big"})
		kv = append(kv, false)
		cases = append(cases, &RCase{Prop: "C03", ID: fmt.Sprintf("C03-corpus%d-b", j), API: "flate", Stream: StreamSpec{Kind: "hex", Hex: h}, Cut: -1, Src: SrcSpec{Kind: "bufio", Buf: 16, Chunk: "one", Term: "eof"}, Ctor: "new", Reads: "k3"})
		kv = append(kv, false)
	}
	parallelJ(len(cases), func(i int) interface{} { return cases[i] }, func(i int) { checkC03(c.rep, c.pool, cases[i], kv[i]) })
}

// inputs on which a defect was once found (DESIGN.md section 7); they run first in every C03 check
var regressionCorpus = []string{
	// a truncated dynamic header ending right after a code word that follows an 18-run: reported as a clean io.EOF
	"ed1d80e4ff9f",
	"000500faff68656c6c6fed1d80e4ff9f",
	// 29 distance codes of 11..15 bits: long-code groups overflowed LongCodeLookup[80]
	"05fd016c00806118b60100000000000000000000000000000000000000000000000000000000000000000000008000000000000000000000000000000000000000000000000000000000000000000000000000000000000000000000000000000000000000000000003076d22c0e9e2ef77ddf89ed",
}

func suiteC04(c *ctx) {
	c.rep.Rule = "valid streams and valid streams cut at a byte, each under several delivery schedules (1 byte per source read, random short reads, fixed chunks, all at once, data together with io.EOF) x bufio sizes 16..65536 x destination sizes (1, 2, 3, 257, random, huge), compared with the all-at-once run; distinct = distinct (shape, length, source, read style, cut)"
	r := NewRng(c.seed ^ 0xC04)
	var cases []*RCase
	for i := 0; i < c.n(110); i++ {
		s := genValidStream(r, "flate")
		if i%9 == 4 {
			s = StreamSpec{Kind: "synth", Synth: &SynthSpec{Seed: r.U64(), Blocks: 3, Size: i % 2, Kinds: "E"}}
		}
		if i%9 == 7 {
			s = StreamSpec{Kind: "synth", Synth: &SynthSpec{Seed: r.U64(), Blocks: 2, Size: (i / 9) % 2, Kinds: "B"}}
		}
		if i%9 == 1 {
			s = StreamSpec{Kind: "synth", Synth: &SynthSpec{Seed: r.U64(), Blocks: 3, Size: 0, Kinds: []string{"L", "U"}[(i/9)%2]}}
		}
		if s.Kind == "synth" && s.Synth.Blocks > 50 {
			s.Synth.Blocks = 300
		}
		st, _, _, _ := s.Materialize()
		cut := -1
		if i%2 == 1 && len(st) > 0 {
			cut = r.Intn(len(st))
		}
		for k := 0; k < 6; k++ {
			rc := &RCase{Prop: "C04", ID: fmt.Sprintf("C04-%d-%d", i, k), API: "flate", Stream: s, Cut: cut, Src: pickSrc(r), Ctor: "new", Reads: readStyles[r.Intn(len(readStyles))], RSeed: r.U64()}
			if k == 0 {
				rc.Src.Chunk = "one"
			}
			if k == 1 {
				rc.Reads = "one"
			}
			if rc.Reads == "one" && len(st) > 30000 {
				rc.Reads = "k3"
			}
			if r.Intn(4) == 0 {
				rc.Ctor = "reset"
			}
			cases = append(cases, rc)
		}
	}
	// every two-piece split of the tail of streams whose output crosses the edge of the decoder's
	// output window inside packed multi-symbol entries
	for i := 0; i < c.n(6); i++ {
		s := StreamSpec{Kind: "synth", Synth: &SynthSpec{Seed: r.U64(), Blocks: 3, Size: i % 2, Kinds: "E"}}
		st, _, _, _ := s.Materialize()
		for p := len(st) - 1; p > 0 && p > len(st)-56; p-- {
			cases = append(cases, &RCase{Prop: "C04", ID: fmt.Sprintf("C04-e%d-%d", i, p), API: "flate", Stream: s, Cut: -1,
				Src: SrcSpec{Kind: "bufio", Buf: 4096, Chunk: fmt.Sprintf("at%d", p), Term: "eof"}, Ctor: "new", Reads: "big", RSeed: r.U64()})
		}
	}
	parallelJ(len(cases), func(i int) interface{} { return cases[i] }, func(i int) { checkC04(c.rep, c.pool, cases[i]) })
}

var srcKinds = []string{"bufio", "bufio", "bufio", "bytes.Reader", "bytes.Buffer", "strings.Reader", "bytereader"}

func suiteC05(c *ctx) {
	c.rep.Rule = "valid flate/gzip/zlib streams followed by a suffix of 0..20 or ~5000 bytes, read from a caller's bufio.Reader of size 16..65536 (through NewReader and through Reset) or from bytes.Reader / bytes.Buffer / strings.Reader / a custom ByteReader; after io.EOF the source must hold exactly the suffix; distinct = distinct (api, shape, length, source kind, constructor, bufio size, suffix length)"
	r := NewRng(c.seed ^ 0xC05)
	var cases []*RCase
	for i := 0; i < c.n(500); i++ {
		api := r.PickS([]string{"flate", "flate", "flate", "gzip", "zlib"})
		rc := &RCase{Prop: "C05", ID: fmt.Sprintf("C05-%d", i), API: api, Stream: genValidStream(r, api), Cut: -1, Ctor: r.PickS([]string{"new", "reset"}),
			Reads: readStyles[r.Intn(len(readStyles))], RSeed: r.U64()}
		if rc.Stream.Kind == "synth" && rc.Stream.Synth.Blocks > 50 {
			rc.Stream.Synth.Blocks = 30
		}
		if rc.Reads == "one" {
			rc.Reads = "k257"
		}
		n := r.Intn(21)
		if r.Intn(6) == 0 {
			n = 5000 + r.Intn(3000)
		}
		rc.Suffix = hexs(r.Bytes(n))
		if n == 0 {
			rc.Suffix = ""
		}
		rc.Src = SrcSpec{Kind: srcKinds[r.Intn(len(srcKinds))], Buf: r.Pick(bufSizes), Chunk: chunkStyles[r.Intn(len(chunkStyles))], Seed: r.U64(), Term: "eof"}
		cases = append(cases, rc)
	}
	for i := 0; i < c.n(40); i++ {
		// the final block ends at the edge of the decoder's output window with its end-of-block code
		// inside a packed multi-symbol entry; a long suffix is buffered behind it
		rc := &RCase{Prop: "C05", ID: fmt.Sprintf("C05-b%d", i), API: "flate", Stream: StreamSpec{Kind: "synth", Synth: &SynthSpec{Seed: r.U64(), Blocks: 2, Size: 1 - (i%4)/3, Kinds: "B"}}, Cut: -1,
			Ctor: r.PickS([]string{"new", "reset"}), Reads: r.PickS([]string{"big", "k257", "rand"}), RSeed: r.U64()}
		rc.Suffix = hexs(r.Bytes(5000 + r.Intn(4000)))
		if i%5 == 0 {
			rc.Suffix = "0000ffff0300" + hexs(r.Bytes(6000))
		}
		rc.Src = SrcSpec{Kind: r.PickS([]string{"bufio", "bufio", "bytes.Reader", "bytes.Buffer"}), Buf: r.Pick([]int{4096, 8192, 16384, 65536}), Chunk: r.PickS([]string{"all", "all", "rand"}), Seed: r.U64(), Term: "eof"}
		cases = append(cases, rc)
	}
	parallelJ(len(cases), func(i int) interface{} { return cases[i] }, func(i int) { checkC05(c.rep, c.pool, cases[i]) })
}

// flushPoints returns (data length, stream offset) after each successful Flush of the writer case, and at the end.
func flushPoints(w *WCase, std bool) (pts [][2]int, stream []byte, data []byte) {
	d := w.datas()
	for i, op := range w.Ops {
		if op.K == "f" {
			obs := RunW(w.Set, std, d, w.Ops[:i+1], 0)
			pts = append(pts, [2]int{len(written(d, w.Ops[:i+1])[0]), len(obs.Bytes(0))})
		}
	}
	obs := RunW(w.Set, std, d, w.Ops, 0)
	stream = obs.Bytes(0)
	data = written(d, w.Ops)[0]
	pts = append(pts, [2]int{len(data), len(stream)})
	return
}

func suiteC11(c *ctx) {
	c.rep.Rule = "flate/gzip/zlib streams with sync-flush points (written by fastgo or the standard library); the source delivers a prefix ending exactly at a flush point or at the end of the stream and then blocks (observed as: the Reader asks the source again), fails alone, or fails together with the last bytes; all data encoded before that point must be returned first; distinct = distinct (api, shape, source, gate offset)"
	r := NewRng(c.seed ^ 0xC11)
	var cases []*RCase
	for i := 0; i < c.n(160); i++ {
		api := r.PickS([]string{"flate", "flate", "gzip", "zlib"})
		std := r.Bool()
		s := Setting{API: api, Level: r.Range(-2, 9)}
		n := r.Pick([]int{1, 20, 300, 5000, 30000, 100000})
		w := &WCase{Set: s, Datas: []DataSpec{pickData(r, Setting{Win4K: true}, n)}}
		var ops []Op
		left := n
		for left > 0 {
			k := 1 + r.Intn(left)
			ops = append(ops, Op{K: "w", N: k}, Op{K: "f"})
			left -= k
		}
		w.Ops = append(ops, Op{K: "c"})
		kind := "fast"
		if std {
			kind = "std"
		}
		pts, stream, _ := flushPoints(w, std)
		for k := 0; k < 3; k++ {
			p := pts[r.Intn(len(pts))]
			if k == 0 {
				p = pts[len(pts)-1]
			}
			rc := &RCase{Prop: "C11", ID: fmt.Sprintf("C11-%d-%d", i, k), API: api, Stream: StreamSpec{Kind: kind, W: w}, Cut: -1, Ctor: "new",
				Reads: readStyles[r.Intn(len(readStyles))], RSeed: r.U64(), Expect: p[0]}
			if rc.Reads == "one" && n > 5000 {
				rc.Reads = "k257"
			}
			rc.Src = SrcSpec{Kind: r.PickS([]string{"bufio", "bufio", "plain"}), Buf: r.Pick(bufSizes), Chunk: r.PickS([]string{"all", "one", "rand", "k4096"}), Seed: r.U64(),
				Term: r.PickS([]string{"gate", "gate", "err", "errdata"}), After: p[1]}
			if p[1] == len(stream) {
				rc.Src.After = len(stream)
			}
			if rc.Src.Term == "errdata" && p[1] == 0 {
				rc.Src.Term = "err"
			}
			if r.Intn(4) == 0 {
				rc.Ctor = "reset"
			}
			cases = append(cases, rc)
		}
	}
	for i := 0; i < c.n(40); i++ {
		// the data flushed so far ends a few bytes past a fill of the decoder's output window: the last
		// symbols before the flush point are still in the bit buffer when the window is handed out
		api := r.PickS([]string{"flate", "flate", "gzip", "zlib"})
		std := i%2 == 0
		s := Setting{API: api, Level: r.Pick([]int{-1, 1, 2, 6, 9, -2})}
		n1 := 65536 + 32768*r.Intn(2) + r.Range(1, 14)
		w := &WCase{Set: s, Datas: []DataSpec{{Gen: r.PickS([]string{"text", "uni4", "uni6", "rnd", "two"}), Seed: r.U64(), N: n1 + 50}}}
		w.Ops = []Op{{K: "w", N: n1}, {K: "f"}, {K: "w", N: 50}, {K: "c"}}
		kind := "fast"
		if std {
			kind = "std"
		}
		pts, _, _ := flushPoints(w, std)
		p := pts[0]
		for _, q := range pts {
			if q[0] == n1 {
				p = q
			}
		}
		rc := &RCase{Prop: "C11", ID: fmt.Sprintf("C11-w%d", i), API: api, Stream: StreamSpec{Kind: kind, W: w}, Cut: -1, Ctor: "new",
			Reads: r.PickS([]string{"big", "k257", "rand", "k32768"}), RSeed: r.U64(), Expect: p[0]}
		rc.Src = SrcSpec{Kind: r.PickS([]string{"bufio", "bufio", "plain"}), Buf: r.Pick(bufSizes), Chunk: r.PickS([]string{"all", "rand", "k4096"}), Seed: r.U64(),
			Term: r.PickS([]string{"gate", "gate", "err", "errdata"}), After: p[1]}
		cases = append(cases, rc)
	}
	for i := 0; i < c.n(40); i++ {
		// raw streams that END with their data: the final block is a non-empty stored block (or a
		// Huffman block) and the source delivers exactly the stream, then blocks or fails
		sp := &SynthSpec{Seed: r.U64(), Blocks: 1 + r.Intn(3), Size: r.Pick([]int{1, 5, 300, 5000, 40000}), Kinds: r.PickS([]string{"s", "s", "sd", "sfd", "f"})}
		st := StreamSpec{Kind: "synth", Synth: sp}
		stream, data, _, _ := st.Materialize()
		rc := &RCase{Prop: "C11", ID: fmt.Sprintf("C11-s%d", i), API: "flate", Stream: st, Cut: -1, Ctor: r.PickS([]string{"new", "new", "reset"}),
			Reads: r.PickS([]string{"big", "k257", "rand"}), RSeed: r.U64(), Expect: len(data)}
		rc.Src = SrcSpec{Kind: r.PickS([]string{"bufio", "bufio", "plain"}), Buf: r.Pick(bufSizes), Chunk: r.PickS([]string{"all", "one", "rand", "k4096"}), Seed: r.U64(),
			Term: r.PickS([]string{"gate", "gate", "err", "errdata"}), After: len(stream)}
		cases = append(cases, rc)
	}
	parallelJ(len(cases), func(i int) interface{} { return cases[i] }, func(i int) { checkC11(c.rep, c.pool, cases[i]) })
}

func suiteC13(c *ctx) {
	c.rep.Rule = "a Reader is used on a first stream (read to the end, abandoned after k bytes, with undelivered output, truncated, corrupt) and then Reset onto a second input (valid streams; malformed ones whose first back-reference reaches before their own start; zlib streams with and without a preset dictionary); everything observable is compared with a new Reader on the same input; distinct = distinct (api, shape, length, prior kind, prior read, prior cut)"
	r := NewRng(c.seed ^ 0xC13)
	var cases []*RCase
	for i := 0; i < c.n(420); i++ {
		api := r.PickS([]string{"flate", "flate", "flate", "gzip", "zlib", "zlib"})
		rc := &RCase{Prop: "C13", ID: fmt.Sprintf("C13-%d", i), API: api, Cut: -1, Src: SrcSpec{Kind: "bytes.Reader"}, Ctor: "reuse",
			Reads: readStyles[r.Intn(len(readStyles))], RSeed: r.U64()}
		if r.Intn(3) == 0 {
			rc.Src = pickSrc(r)
		}
		switch {
		case api == "flate" && i%3 == 0:
			// early back-reference: must be corrupt, never bytes of the previous stream
			rc.Stream = StreamSpec{Kind: "synth", Synth: &SynthSpec{Seed: r.U64(), Blocks: 1, Size: r.Pick([]int{1, 2, 5, 30}), Fault: "dist-too-far", Kinds: "d"}}
		case api == "flate" && i%3 == 1:
			rc.Stream = genMalformed(r)
		default:
			rc.Stream = genValidStream(r, api)
		}
		if api == "zlib" && i%2 == 0 {
			d := &DataSpec{Gen: "text", Seed: r.U64(), N: r.Pick([]int{4, 10, 300, 20000})}
			rc.Dict = d
			w := &WCase{Set: Setting{API: "zlib", Level: r.Range(-2, 9), Dict: d}, Datas: []DataSpec{{Gen: "text", Seed: d.Seed, N: r.Pick([]int{50, 2000, 40000})}}}
			w.Ops = []Op{{K: "w", N: w.Datas[0].N}, {K: "c"}}
			rc.Stream = StreamSpec{Kind: r.PickS([]string{"fast", "std"}), W: w}
		}
		if rc.Stream.Kind == "synth" && rc.Stream.Synth.Blocks > 50 {
			rc.Stream.Synth.Blocks = 5
		}
		if rc.Reads == "one" {
			rc.Reads = "k3"
		}
		pr := &PriorSpec{Stream: genValidStream(r, api), Read: r.Pick([]int{-1, -1, 0, 1, 50, 1000, 40000, 70000}), Cut: -1}
		if pr.Stream.Kind == "synth" && pr.Stream.Synth.Blocks > 50 {
			pr.Stream.Synth.Blocks = 5
		}
		if r.Intn(4) == 0 {
			st, _, _, _ := pr.Stream.Materialize()
			if len(st) > 0 {
				pr.Cut = r.Intn(len(st))
			}
		}
		if r.Intn(5) == 0 && api == "flate" {
			pr.Stream = genMalformed(r)
		}
		rc.Prior = pr
		switch i % 10 {
		case 6:
			// the first stream leaves a long-code table behind; the next stream uses a code word that is
			// unassigned in ITS code and lands on a slot of that table
			if api == "flate" {
				pr.Stream = StreamSpec{Kind: "synth", Synth: &SynthSpec{Seed: r.U64(), Blocks: 1, Kinds: "H", Size: 1}}
				pr.Cut, pr.Read = -1, -1
				rc.Stream = StreamSpec{Kind: "synth", Synth: &SynthSpec{Seed: pr.Stream.Synth.Seed, Blocks: 1, Kinds: "H", Size: 2}}
			}
		case 7:
			// the abandoned stream stopped inside a block header (staged header bytes); the next stream's
			// first header arrives in pieces
			pr.Stream = StreamSpec{Kind: "synth", Synth: &SynthSpec{Seed: r.U64(), Blocks: 2, Size: 300, Kinds: r.PickS([]string{"d", "d", "s"})}}
			pr.Cut = r.Range(1, 40)
			pr.Read = -1
			if api == "flate" {
				rc.Stream = StreamSpec{Kind: "synth", Synth: &SynthSpec{Seed: r.U64(), Blocks: 1 + r.Intn(2), Size: 3000, Kinds: r.PickS([]string{"d", "d", "s"})}}
				rc.Src = SrcSpec{Kind: r.PickS([]string{"bufio", "plain"}), Buf: r.Pick([]int{16, 64, 4096}), Chunk: r.PickS([]string{"one", "one", "rand"}), Seed: r.U64(), Term: "eof"}
			}
		case 8:
			// the first stream was read to io.EOF from the same buffered source that Reset gets again
			if api == "flate" {
				rc.Ctor = "reuse-same"
				pr.Stream = genValidStream(r, "flate")
				if pr.Stream.Kind == "synth" && pr.Stream.Synth.Blocks > 50 {
					pr.Stream.Synth.Blocks = 5
				}
				pr.Cut, pr.Read = -1, -1
				rc.Src = SrcSpec{Kind: "bufio", Buf: r.Pick([]int{16, 512, 4096, 65536}), Chunk: r.PickS([]string{"all", "rand", "one"}), Seed: r.U64(), Term: "eof"}
				if i%20 == 8 {
					rc.Stream = StreamSpec{Kind: "synth", Synth: &SynthSpec{Seed: r.U64(), Blocks: 1, Size: r.Pick([]int{1, 2, 5, 30}), Fault: "dist-too-far", Kinds: "d"}}
				}
			}
		}
		cases = append(cases, rc)
	}
	parallelJ(len(cases), func(i int) interface{} { return cases[i] }, func(i int) { checkC13(c.rep, c.pool, cases[i]) })
}

func suiteC15(c *ctx) {
	c.rep.Rule = "valid flate/gzip/zlib streams whose source fails with a non-EOF error after k bytes (every k for small streams, sampled for large ones), the error arriving alone or together with the last bytes, under several chunkings and destination sizes; distinct = distinct (api, shape, length, terminal behaviour, k)"
	r := NewRng(c.seed ^ 0xC15)
	var cases []*RCase
	for i := 0; i < c.n(90); i++ {
		api := r.PickS([]string{"flate", "flate", "gzip", "zlib"})
		s := genValidStream(r, api)
		if s.Kind == "synth" && s.Synth.Blocks > 50 {
			s.Synth.Blocks = 8
		}
		st, _, _, _ := s.Materialize()
		var ks []int
		if len(st) <= 60 {
			for k := 0; k <= len(st); k++ {
				ks = append(ks, k)
			}
		} else {
			ks = append(ks, len(st))
			for k := 0; k < 12; k++ {
				ks = append(ks, r.Intn(len(st)))
			}
			ks = append(ks, 0, 1, 2, 9, 10, 11, len(st)-1, len(st)-2, len(st)-5, len(st)-8, len(st)-9)
		}
		for j, k := range ks {
			rc := &RCase{Prop: "C15", ID: fmt.Sprintf("C15-%d-%d", i, j), API: api, Stream: s, Cut: -1, Ctor: "new", Reads: readStyles[r.Intn(len(readStyles))], RSeed: r.U64()}
			if rc.Reads == "one" && len(st) > 3000 {
				rc.Reads = "k257"
			}
			rc.Src = SrcSpec{Kind: r.PickS([]string{"bufio", "plain", "bufio"}), Buf: r.Pick(bufSizes), Chunk: chunkStyles[r.Intn(len(chunkStyles))], Seed: r.U64(),
				Term: r.PickS([]string{"err", "errdata"}), After: k, Wrap: j%4 == 3}
			if k == 0 {
				rc.Src.Term = "err"
			}
			cases = append(cases, rc)
		}
	}
	parallelJ(len(cases), func(i int) interface{} { return cases[i] }, func(i int) { checkC15(c.rep, c.pool, cases[i]) })
}

// C18: the same reader cases (valid, truncated, malformed; several schedules) at every level; the
// orchestrator compares the digests of (bytes, error kind, further reads, leftover) across levels.
func suiteC18(c *ctx) {
	c.rep.Rule = "reader cases of the C02/C03/C04 families (valid, truncated and malformed streams, several source schedules and destination sizes) and writer round trips, executed in one process per acceleration level (0, 1, 3, 4 as far as the host can run them, plus the build without assembly); bytes, error kind, further Reads and leftover input must be identical across levels; distinct = distinct (shape, length, constructor, read style, cut)"
	r := NewRng(c.seed ^ 0xC18)
	var cases []*RCase
	var kv []bool
	for i := 0; i < c.n(500); i++ {
		rc, k := genC03Case(r, i)
		rc.ID = fmt.Sprintf("C18-m%d", i)
		if i%2 == 0 {
			rc.Src = pickSrc(r)
		}
		cases = append(cases, rc)
		kv = append(kv, k)
	}
	parallelJ(len(cases), func(i int) interface{} { return cases[i] }, func(i int) { checkC03(c.rep, c.pool, cases[i], kv[i]) })
	var vc []*RCase
	for i := 0; i < c.n(250); i++ {
		rc := &RCase{Prop: "C18", ID: fmt.Sprintf("C18-v%d", i), API: "flate", Stream: genValidStream(r, "flate"), Cut: -1,
			Src: pickSrc(r), Ctor: "new", Reads: readStyles[r.Intn(len(readStyles))], RSeed: r.U64()}
		if rc.Reads == "one" && rc.Stream.Kind != "synth" {
			rc.Reads = "k3"
		}
		switch i % 5 {
		case 3:
			// output crossing the edge of the decoder's window inside packed entries (also "literal +
			// length 258" entries ending just past the edge), the source pausing at every byte
			rc.Stream = StreamSpec{Kind: "synth", Synth: &SynthSpec{Seed: r.U64(), Blocks: 3, Size: i % 2, Kinds: []string{"E", "L"}[(i/5)%2]}}
			rc.Src = SrcSpec{Kind: "bufio", Buf: r.Pick([]int{16, 64, 4096}), Chunk: r.PickS([]string{"one", "rand", "all", "tail", "tail", "tail"}), Seed: r.U64(), Term: "eof"}
			if rc.Src.Chunk == "tail" {
				// two deliveries: everything but the last few bytes, then the rest
				st, _, _, _ := rc.Stream.Materialize()
				rc.Src.Chunk = fmt.Sprintf("at%d", max0(len(st)-r.Range(1, 24)))
				rc.Src.Buf = 4096
			}
		case 4:
			rc.Stream = StreamSpec{Kind: "synth", Synth: &SynthSpec{Seed: r.U64(), Blocks: 2, Size: (i / 5) % 2, Kinds: "B"}}
			rc.Src = SrcSpec{Kind: "bufio", Buf: r.Pick([]int{64, 4096, 8192, 65536}), Chunk: r.PickS([]string{"all", "rand", "one"}), Seed: r.U64(), Term: "eof"}
			if (i/5)%2 == 1 {
				rc.Suffix = hexs(r.Bytes(5000 + r.Intn(4000)))
			}
		}
		vc = append(vc, rc)
	}
	// units <literal><match 258> running up to the edge of the first output window, the packed entry
	// "literal + length 258" of the last unit starting 258 (+-1) bytes before the edge; the input is
	// delivered in two pieces, the second being the last 1..16 bytes
	for i := 0; i < c.n(8); i++ {
		s := StreamSpec{Kind: "synth", Synth: &SynthSpec{Seed: r.U64(), Blocks: 1, Size: 9 + i%3, Kinds: "U"}}
		st, _, _, _ := s.Materialize()
		for k := 1; k <= 16 && k < len(st); k++ {
			vc = append(vc, &RCase{Prop: "C18", ID: fmt.Sprintf("C18-u%d-%d", i, k), API: "flate", Stream: s, Cut: -1,
				Src: SrcSpec{Kind: "bufio", Buf: 4096, Chunk: fmt.Sprintf("at%d", len(st)-k), Term: "eof"}, Ctor: "new", Reads: "big", RSeed: r.U64()})
		}
	}
	parallelJ(len(vc), func(i int) interface{} { return vc[i] }, func(i int) { checkC02(c.rep, c.pool, vc[i]) })
	var wc []*WCase
	for i := 0; i < c.n(60); i++ {
		s := pickSetting(r, []string{"flate"}, true)
		wc = append(wc, genHistory(r, "C18", i, s, false, i%2 == 0))
	}
	for i := 0; i < c.n(48); i++ {
		// long inputs made of back-references of every length and distance: every token-packing path of
		// the accelerated encoders sees tokens of every bit length at every bit offset
		s := Setting{API: "flate", Level: []int{1, 2, -1}[i%3], Win4K: i%8 == 7}
		n := r.Range(300000, 500000)
		wc = append(wc, &WCase{Prop: "C18", ID: fmt.Sprintf("C18-refs%d", i), Set: s, Datas: []DataSpec{{Gen: "refs", Seed: r.U64(), N: n}}, Ops: []Op{{K: "w", N: n}, {K: "c"}}})
	}
	wc = append(wc, tailCases(r, "C18", c.n(40))...)
	parallelJ(len(wc), func(i int) interface{} { return wc[i] }, func(i int) { checkHistory(c.rep, c.pool, wc[i]) })
}
