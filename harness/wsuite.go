package main

import (
	"bytes"
	"fmt"
)

// WCase is a writer-side case: one or two histories on one setting.
type WCase struct {
	Prop   string     `json:"property"`
	ID     string     `json:"id"`
	Set    Setting    `json:"setting"`
	Datas  []DataSpec `json:"datas"`
	Ops    []Op       `json:"ops"`
	Ops2   []Op       `json:"ops2,omitempty"`
	FailAt int        `json:"fail_at,omitempty"`
	Once   bool       `json:"fail_once,omitempty"` // the destination fails at that call only
}

// F-STD-dict-stored-block: compress/flate (go1.23) NewWriterDict leaves blockStart at 0 after
// loading the dictionary, so when the first block is emitted as a stored block it contains the
// dictionary bytes as well.  fastgo delegates every dictionary writer to compress/flate.  The
// matcher accepts a case only if the writer has a dictionary AND fastgo's output for the history
// is byte-identical to the output of the standard library's own writer (so nothing that fastgo
// itself adds or changes is ever suppressed).
func (c *WCase) knownClass() string {
	if c == nil || c.Set.Dict == nil {
		return ""
	}
	d := c.datas()
	a := RunW(c.Set, false, d, c.Ops, 0)
	b := RunW(c.Set, true, d, c.Ops, 0)
	if a.Panic == "" && b.Panic == "" && len(a.Dests) == len(b.Dests) {
		for i := range a.Dests {
			if !bytes.Equal(a.Bytes(i), b.Bytes(i)) {
				return ""
			}
		}
		// the finding is the standard library's own failure to round-trip THIS history: some
		// destination of its writer, read back by its reader with the same dictionary, does not give
		// the bytes written (the dictionary reappears in front of them).  Where the standard library
		// round-trips, a violation on a dictionary case is not that finding.
		dict := c.Set.Dict.Generate()
		wr := written(d, c.Ops)
		for i := range b.Dests {
			if i >= len(wr) {
				break
			}
			o := RunR(c.Set.API, true, b.Bytes(i), dict, SrcSpec{Kind: "bytes.Reader"}, "new", nil, "big", 0, 0)
			if o.Panic != "" || (o.CtorErr == "" && o.Err == "EOF" && bytes.Equal(o.Bytes, wr[i])) {
				continue
			}
			if len(o.Bytes) >= len(dict) && len(dict) > 0 && bytes.Equal(o.Bytes[:len(dict)], dict) || o.Err == "CHECKSUM" {
				return "F-STD-dict-stored-block"
			}
		}
	}
	return ""
}

func (c *WCase) datas() [][]byte {
	out := make([][]byte, len(c.Datas))
	for i, d := range c.Datas {
		out[i] = d.Generate()
	}
	return out
}

func (c *WCase) sample() string {
	ds := ""
	for _, d := range c.Datas {
		ds += d.String() + " "
	}
	s := fmt.Sprintf("%s data=[%s] ops=[%s]", c.Set, ds, opsString(c.Ops))
	if len(c.Ops2) > 0 {
		s += " ops2=[" + opsString(c.Ops2) + "]"
	}
	if c.FailAt > 0 {
		s += fmt.Sprintf(" fail_at=%d", c.FailAt)
	}
	return s
}

// ---------- generators ----------

var accelSettings = []Setting{
	{API: "flate", Level: 1}, {API: "flate", Level: 2}, {API: "flate", Level: -1}, {API: "flate", Level: -2},
	{API: "flate", Level: 1, Win4K: true}, {API: "flate", Level: 2, Win4K: true}, {API: "flate", Level: -1, Win4K: true},
	{API: "flate", Level: -2, Win4K: true}, {API: "flate", Level: 5, Win4K: true}, {API: "flate", Level: 9, Win4K: true},
}

func pickSetting(r *Rng, apis []string, accelOnly bool) Setting {
	api := apis[r.Intn(len(apis))]
	if api == "flate" && (accelOnly || r.Intn(10) < 7) {
		return accelSettings[r.Intn(len(accelSettings))]
	}
	s := Setting{API: api}
	if accelOnly || r.Intn(10) < 6 {
		s.Level = []int{1, 2, -1, -2}[r.Intn(4)]
	} else {
		s.Level = r.Range(-2, 9)
	}
	if !accelOnly && api != "gzip" && r.Intn(8) == 0 {
		s.Dict = &DataSpec{Gen: r.PickS([]string{"text", "uni3", "rnd"}), Seed: r.U64(), N: r.Pick([]int{4, 30, 500, 5000, 40000, 40000, r.Range(1, 3)})}
	}
	return s
}

// interesting sizes around the roll-over points of the writer's buffers
func pickSize(r *Rng, s Setting, big bool) int {
	w := s.Window()
	roll := 2*w + 258
	jit := []int{-9, -8, -7, -1, 0, 1, 7, 8, 9}
	switch r.Intn(12) {
	case 0:
		return r.Intn(10)
	case 1, 2:
		return r.Intn(400)
	case 3:
		return r.Intn(9000)
	case 4:
		return max0(roll + jit[r.Intn(len(jit))])
	case 5:
		return max0(roll*(1+r.Intn(3)) - w*r.Intn(2) + jit[r.Intn(len(jit))])
	case 6:
		return 65536 + r.Range(-2, 2)
	case 7:
		if big {
			return 65536*2 + r.Range(-2, 2)
		}
		return 8176 + r.Range(-20, 20)
	case 8:
		if big {
			return r.Range(66000, 200000)
		}
		return r.Range(8000, 20000)
	case 9:
		return 8176*(1+r.Intn(4)) + r.Range(-30, 30)
	case 10:
		return r.Range(32700, 33900) // about 32767 literal tokens
	default:
		return r.Range(1000, 70000)
	}
}

func max0(x int) int {
	if x < 0 {
		return 0
	}
	return x
}

// kinds whose decoding by the list-based reference inflater is cheap even with a 32 KiB window
var cheapKinds = []string{"tokedge", "uni1", "uni2", "uni3", "uni4", "uni6", "uni8", "fib", "one", "two",
	"plant4095", "plant4096", "plant4097", "plant32767", "plant32768", "plant32769", "plant1", "plant2", "plant70000",
	"run", "per1", "per2", "per3", "per4", "per7", "per31", "per64", "rnd", "zeros", "rarerun"}

func pickData(r *Rng, s Setting, n int) DataSpec {
	if s.Dict != nil && r.Intn(3) != 0 {
		// data that shares its content with the preset dictionary (same generator and seed), so that
		// matches really reach into the dictionary
		return DataSpec{Gen: s.Dict.Gen, Seed: s.Dict.Seed, N: n}
	}
	k := dataKinds[r.Intn(len(dataKinds))]
	if (k == "text" || k == "mix" || k == "uni1" || k == "uni2" || k == "uni3") && !s.Win4K && n > 30000 {
		k = cheapKinds[r.Intn(len(cheapKinds))]
		if k == "uni1" || k == "uni2" || k == "uni3" {
			k = "uni8"
		}
	}
	return DataSpec{Gen: k, Seed: r.U64(), N: n}
}

// partition n bytes of data stream src into write ops, with flushes, in one of several styles
func partition(r *Rng, n int, src int, s Setting, flushes bool) []Op {
	var ops []Op
	w := s.Window()
	roll := 2*w + 258
	style := r.Intn(7)
	if n > 4000 && style == 1 {
		style = 2
	}
	left := n
	emit := func(k int) {
		if k > left {
			k = left
		}
		ops = append(ops, Op{K: "w", N: k, Src: src})
		left -= k
		if flushes && r.Intn(6) == 0 {
			ops = append(ops, Op{K: "f"})
			if r.Intn(4) == 0 {
				ops = append(ops, Op{K: "f"})
			}
		}
	}
	if flushes && r.Intn(8) == 0 {
		ops = append(ops, Op{K: "f"})
	}
	for left > 0 {
		switch style {
		case 0:
			emit(left)
		case 1:
			emit(1)
		case 2:
			emit(1 + r.Intn(1+n/3))
		case 3:
			emit(r.Pick([]int{roll, roll - 1, roll + 1, w, 65536, 8192, 8176, roll - 8}))
		case 4:
			if r.Intn(3) == 0 {
				emit(0)
			} else {
				emit(r.Intn(3000))
			}
		case 5:
			emit(1 + r.Intn(64))
			if len(ops) > 400 {
				style = 2
			}
		default:
			emit(r.Pick([]int{1, 7, 8, 9, 255, 256, 257, 258, 259, 4096, 32768, 65535}))
		}
	}
	if n == 0 && r.Bool() {
		ops = append(ops, Op{K: "w", N: 0, Src: src})
	}
	if flushes && r.Intn(5) == 0 {
		ops = append(ops, Op{K: "f"})
	}
	return ops
}

// ---------- shared stream oracle ----------

// checkStream applies the round-trip oracles to a complete stream `out` that should encode `data`.
func checkStream(rep *Report, pool *DriverPool, c *WCase, tag string, out, data, dict []byte, useSpec bool) (spec *SpecResult) {
	so, sk, rest := stdInflate(dict, out)
	if sk != "EOF" || !bytes.Equal(so, data) {
		rep.Violate(tag+"std-inflate", "", fmt.Sprintf("compress/flate decodes %d bytes of output to %d bytes, %s; expected %d bytes, EOF (first diff at %d)",
			len(out), len(so), sk, len(data), firstDiff(so, data)), c)
	} else if rest != 0 {
		rep.Violate(tag+"trailing-bytes", "", fmt.Sprintf("%d bytes follow the end of the stream", rest), c)
	}
	if dict == nil {
		fo, fk, pan := fastInflate(out)
		if pan != "" || fk != "EOF" || !bytes.Equal(fo, data) {
			rep.Violate(tag+"own-reader", "", fmt.Sprintf("fastgo Reader: %d bytes, %s, panic=%q; expected %d bytes, EOF (first diff at %d)",
				len(fo), fk, pan, len(data), firstDiff(fo, data)), c)
		}
	}
	if useSpec && pool != nil {
		sr, err := pool.Inflate(dict, out)
		if err != nil {
			rep.Note("driver error: " + err.Error())
			return nil
		}
		spec = &sr
		ok := sr.Status == "done" && bytes.Equal(sr.Out, data) && sr.BitPos <= 8*len(out) && sr.BitPos > 8*(len(out)-1)
		if !ok {
			rep.Violate(tag+"spec-inflate", "", fmt.Sprintf("reference inflater: status=%s out=%d bytes bitpos=%d of %d bits; expected done, %d bytes (first diff at %d)",
				sr.Status, len(sr.Out), sr.BitPos, 8*len(out), len(data), firstDiff(sr.Out, data)), c)
		}
	}
	return spec
}

func firstDiff(a, b []byte) int {
	n := len(a)
	if len(b) < n {
		n = len(b)
	}
	for i := 0; i < n; i++ {
		if a[i] != b[i] {
			return i
		}
	}
	if len(a) != len(b) {
		return n
	}
	return -1
}

func allNil(res []OpRes) (bool, int) {
	for i, r := range res {
		if r.Err != "" {
			return false, i
		}
	}
	return true, -1
}

func specAffordable(s Setting, d DataSpec) bool {
	if d.N <= 30000 || s.Win4K {
		return d.N <= 300000
	}
	for _, k := range cheapKinds {
		if k == d.Gen && k != "uni1" && k != "uni2" && k != "uni3" {
			return d.N <= 300000
		}
	}
	return false
}

// ---------- C01 / C19 / C10: histories of Write and Flush, then Close ----------

func genHistory(r *Rng, prop string, i int, s Setting, big bool, flushes bool) *WCase {
	n := pickSize(r, s, big)
	d := pickData(r, s, n)
	c := &WCase{Prop: prop, ID: fmt.Sprintf("%s-%d", prop, i), Set: s, Datas: []DataSpec{d}}
	c.Ops = append(partition(r, n, 0, s, flushes), Op{K: "c"})
	return c
}

// checkHistory runs the history and applies the C01, C10 and C19 oracles; which of them count
// as violations of `prop` is decided by the caller through the oracle tags.
func checkHistory(rep *Report, pool *DriverPool, c *WCase) {
	datas := c.datas()
	var dict []byte
	if c.Set.Dict != nil {
		dict = c.Set.Dict.Generate()
	}
	obs := RunW(c.Set, false, datas, c.Ops, 0)
	compareModel(rep, pool, c, c.Set, datas, c.Ops, 0, obs)
	key := fmt.Sprintf("%s|%s|%d|%d", c.Set, c.Datas[0].Gen, c.Datas[0].N, len(c.Ops))
	triv := c.Datas[0].N == 0
	if triv {
		key = fmt.Sprintf("%s|empty|%d", c.Set, len(c.Ops))
	}
	rep.Eval(key, c.sample())
	rep.Count("setting:" + c.Set.String())
	rep.Count("data:" + c.Datas[0].Gen)
	rep.Count(sizeBucket(c.Datas[0].N))
	if obs.Panic != "" {
		rep.Violate("panic", "", obs.Panic, c)
		return
	}
	if obs.Ctor != "" {
		rep.Violate("constructor", "", obs.Ctor, c)
		return
	}
	if ok, i := allNil(obs.Res); !ok {
		rep.Violate("unexpected-error", "", fmt.Sprintf("op %d (%s) returned %q with a healthy destination", i, c.Ops[i].K, obs.Res[i].Err), c)
		return
	}
	for i, op := range c.Ops {
		if op.K == "w" && obs.Res[i].N != opLen(datas, c.Ops, i) {
			rep.Violate("short-write", "", fmt.Sprintf("op %d returned n=%d", i, obs.Res[i].N), c)
		}
	}
	// the stream that is checked is the one on the last destination (histories with a Reset)
	lastD := len(obs.Dests) - 1
	out := obs.Bytes(lastD)
	data := written(datas, c.Ops)[lastD]
	useSpec := specAffordable(c.Set, c.Datas[0])
	spec := checkStream(rep, pool, c, "", out, data, dict, useSpec)
	rep.Digest(c.ID, data) // level-independent: the data every level must round-trip
	if spec != nil {
		rep.Count("spec-decoded")
		lim := c.Set.Window()
		if spec.MaxDist > lim {
			rep.Violate("window", "", fmt.Sprintf("back-reference distance %d exceeds the %d-byte window", spec.MaxDist, lim), c)
		}
		if spec.MaxDist > 0 {
			rep.Count("has-matches")
		}
		if spec.MaxDist*8 >= lim*7 {
			rep.Count("dist-near-window")
		}
	}
	// Flush prefixes (C10): replay the history and cut after every Flush
	checkFlushPrefixes(rep, pool, c, datas, dict, useSpec)
}

func opLen(datas [][]byte, ops []Op, i int) int {
	cur := make([]int, len(datas))
	for j, op := range ops {
		if op.K != "w" {
			continue
		}
		a := cur[op.Src]
		b := a + op.N
		if b > len(datas[op.Src]) {
			b = len(datas[op.Src])
		}
		cur[op.Src] = b
		if j == i {
			return b - a
		}
	}
	return 0
}

func sizeBucket(n int) string {
	switch {
	case n == 0:
		return "size:0"
	case n < 300:
		return "size:<300"
	case n < 8000:
		return "size:<8000"
	case n < 20000:
		return "size:<20000"
	case n < 66000:
		return "size:<66000"
	default:
		return "size:>=66000"
	}
}

// checkFlushPrefixes: after every Flush that returned nil, the bytes emitted so far must decode
// (by compress/flate and by the reference inflater) to exactly the data written so far, then
// ask for more input.
func checkFlushPrefixes(rep *Report, pool *DriverPool, c *WCase, datas [][]byte, dict []byte, useSpec bool) {
	nf := 0
	for i, op := range c.Ops {
		if op.K == "f" {
			nf++
			if nf > 6 && i%5 != 0 {
				continue
			}
			pre := c.Ops[:i+1]
			obs := RunW(c.Set, false, datas, pre, 0)
			if obs.Panic != "" {
				rep.Violate("flush-panic", "", obs.Panic, c)
				return
			}
			if obs.Res[i].Err != "" {
				continue
			}
			out := obs.Bytes(len(obs.Dests) - 1)
			data := written(datas, pre)[len(obs.Dests)-1]
			rep.Count("flush-prefix")
			checkFlushPrefix(rep, pool, c, i, out, data, dict, useSpec)
		}
	}
}

func classifyFlush(c *WCase) string { return "" }

func checkFlushPrefix(rep *Report, pool *DriverPool, c *WCase, opIdx int, out, data, dict []byte, useSpec bool) {
	payload, ok := stripContainerHeader(c.Set, out)
	if !ok {
		rep.Violate("flush-container-header", "", fmt.Sprintf("after Flush at op %d the %d bytes emitted do not start with a %s header", opIdx, len(out), c.Set.API), c)
		return
	}
	so, sk, _ := stdInflate(dict, payload)
	if sk != "UEOF" || !bytes.Equal(so, data) {
		rep.Violate("flush-prefix-std", "", fmt.Sprintf("after Flush at op %d: compress/flate decodes the %d bytes emitted so far to %d bytes then %s; expected the %d bytes written so far then unexpected EOF (first diff %d)",
			opIdx, len(out), len(so), sk, len(data), firstDiff(so, data)), c)
		return
	}
	if useSpec && pool != nil {
		sr, err := pool.Inflate(dict, payload)
		if err != nil {
			rep.Note("driver error: " + err.Error())
			return
		}
		good := sr.Status == "need" && bytes.Equal(sr.Out, data) && sr.BitPos == 8*len(payload) && len(sr.Syncs) > 0 &&
			sr.Syncs[len(sr.Syncs)-1] == [2]int{len(data), len(payload)}
		if !good {
			rep.Violate("flush-prefix-spec", "", fmt.Sprintf("after Flush at op %d: reference inflater status=%s out=%d bitpos=%d/%d syncs=%v; expected need, %d bytes, a sync point at the end",
				opIdx, sr.Status, len(sr.Out), sr.BitPos, 8*len(payload), lastN(sr.Syncs, 2), len(data)), c)
		}
	}
}

func lastN(x [][2]int, n int) [][2]int {
	if len(x) > n {
		return x[len(x)-n:]
	}
	return x
}

// stripContainerHeader removes the gzip (default header: 10 bytes + optional fields) or zlib
// (2 bytes, +4 with a dictionary) header so that the DEFLATE part can be decoded on its own.
func stripContainerHeader(s Setting, out []byte) ([]byte, bool) {
	switch s.API {
	case "flate":
		return out, true
	case "zlib":
		n := 2
		if s.Dict != nil {
			n = 6
		}
		if len(out) < n || out[0]&0x0f != 8 {
			return nil, false
		}
		return out[n:], true
	case "gzip":
		n, ok := gzipHeaderLen(out)
		if !ok {
			return nil, false
		}
		return out[n:], true
	}
	return nil, false
}

func gzipHeaderLen(b []byte) (int, bool) {
	if len(b) < 10 || b[0] != 0x1f || b[1] != 0x8b || b[2] != 8 {
		return 0, false
	}
	flg := b[3]
	n := 10
	if flg&4 != 0 {
		if len(b) < n+2 {
			return 0, false
		}
		n += 2 + int(b[n]) + int(b[n+1])<<8
	}
	if flg&8 != 0 {
		for n < len(b) && b[n] != 0 {
			n++
		}
		n++
	}
	if flg&16 != 0 {
		for n < len(b) && b[n] != 0 {
			n++
		}
		n++
	}
	if flg&2 != 0 {
		n += 2
	}
	if n > len(b) {
		return 0, false
	}
	return n, true
}
