#!/bin/sh
# Builds the Coq model of the gzip/zlib readers, its OCaml driver and the Go differential tester,
# replays regress.txt, then runs N generated cases (default 3000).
# Usage: run.sh [N] [seed] [extra gz-harness flags]
set -e
N=${1:-3000}
SEED=${2:-1}
[ $# -gt 0 ] && shift
[ $# -gt 0 ] && shift
export GOFLAGS=-mod=mod GOPROXY=off GOSUMDB=off GOTOOLCHAIN=local
cd /verif/harness-gz
./build-model.sh
timeout 900 go build -tags verif -o gz-harness .
FASTGO_VERIF_ARCHLEVEL=0 timeout 3600 ./gz-harness -replay regress.txt
FASTGO_VERIF_ARCHLEVEL=0 timeout 7200 ./gz-harness -n "$N" -seed "$SEED" "$@"
