// Differential tester: the real fastgo gzip.Reader and zlib reader (on fastgo's flate Reader,
// pure-Go decode loop, acceleration level 0) against the Gallina model RModel/GzEngine.v
// extracted to OCaml (/verif/driver/gz/gz_driver).
//
// A case is a script: one or more sources (stream, bufio size, chunk schedule, terminal) and a
// list of operations on ONE Reader object (Read, Reset on the same bufio.Reader, Reset on a new
// source, Multistream, Close).  The real object is driven and every observation recorded
// (bytes and error kind of every Read; error kind and Header of every Reset; source bytes
// consumed when a source is left and at the end); the model driver gets the same script on one
// line (protocol: /verif/driver/gz_main.ml) and answers with its observations.  Compared:
// everything.  Besides, model-independent oracles are checked on the real run alone.
package main

import (
	"bufio"
	"bytes"
	"errors"
	"flag"
	"fmt"
	"hash/adler32"
	"hash/crc32"
	"io"
	"os"
	"os/exec"
	"sort"
	"strconv"
	"strings"
	"sync"
	"time"

	"github.com/intel/fastgo/compress/flate"
	"github.com/intel/fastgo/compress/gzip"
	"github.com/intel/fastgo/compress/zlib"
)

var errSrc = errors.New("source failed")

const unbounded = 1 << 30

// Source: what the Reader reads from.
type Source struct {
	Stream  []byte
	BufSize int
	Chunks  []int // sizes cut from the left; the rest of the stream is one last chunk
	TermErr bool
	Raw     bool // hand the raw source to the Reader (it wraps it in a 4096-byte bufio.Reader itself)
}

// Op: one operation of the script.
//   'r' Read(len Size) Count times   'R' Reset(same bufio.Reader) [zlib: dictionary Dict]
//   'W' Reset(raw source under the bufio.Reader)   'N' Reset(next source) [zlib: dictionary Dict]
//   'M' Multistream(Flag)   'C' Close
type Op struct {
	Kind  byte
	Size  int
	Count int
	Flag  bool
	Dict  int
}

type Case struct {
	Name   string
	Zlib   bool
	Simple bool     // use the g / z request (NewReader + Reads); else the G / Z request
	Multi  bool     // Simple gzip: the Multistream flag
	Dicts  [][]byte // zlib: dictionary k is Dicts[k-1]; 0 = nil
	Dict0  int
	Srcs   []Source
	Ops    []Op
	Extra  int  // Reads issued by an unbounded Read op after the first error (stickiness)
	Loose  bool // dictionary branch with a damaged body: only prefix-compatibility is compared
	// oracle inputs (0/nil = not applicable)
	WantPayload []byte // the Reads up to the first error must deliver exactly this, then eof
	WantEOF     bool
	NoCleanEOF  bool // no Read may return eof (truncated container / failing source)
	ExactUse    int  // >0: bytes consumed from source 0 at the end must equal this
	wantHdr     string // the Header the first Reset must report
}

func sizesString(xs []int) string {
	if len(xs) == 0 {
		return "-"
	}
	var sb strings.Builder
	i := 0
	for i < len(xs) {
		j := i
		for j < len(xs) && xs[j] == xs[i] {
			j++
		}
		if sb.Len() > 0 {
			sb.WriteByte(',')
		}
		if j-i > 1 {
			fmt.Fprintf(&sb, "%dx%d", xs[i], j-i)
		} else {
			fmt.Fprintf(&sb, "%d", xs[i])
		}
		i = j
	}
	return sb.String()
}

func (s *Source) fields() string {
	hx := "-"
	if len(s.Stream) > 0 {
		hx = hexs(s.Stream)
	}
	term := "eof"
	if s.TermErr {
		term = "err"
	}
	bs := s.BufSize
	if s.Raw {
		bs = 4096
	}
	return fmt.Sprintf("%s %d %s %s", hx, bs, sizesString(s.Chunks), term)
}

func opsString(ops []Op, simple bool) string {
	var out []string
	for _, o := range ops {
		switch o.Kind {
		case 'r':
			if o.Count == 0 {
				continue
			}
			p := "r"
			if simple {
				p = ""
			}
			if o.Count == 1 {
				out = append(out, fmt.Sprintf("%s%d", p, o.Size))
			} else {
				out = append(out, fmt.Sprintf("%s%dx%d", p, o.Size, o.Count))
			}
		case 'R', 'N':
			out = append(out, fmt.Sprintf("%c%d", o.Kind, o.Dict))
		case 'W', 'C':
			out = append(out, string(o.Kind))
		case 'M':
			if o.Flag {
				out = append(out, "M1")
			} else {
				out = append(out, "M0")
			}
		}
	}
	if len(out) == 0 {
		return "-"
	}
	return strings.Join(out, ",")
}

func dictsString(ds [][]byte) string {
	if len(ds) == 0 {
		return "-"
	}
	var out []string
	for _, d := range ds {
		if len(d) == 0 {
			out = append(out, "e")
		} else {
			out = append(out, hexs(d))
		}
	}
	return strings.Join(out, "/")
}

// Line is the request sent to the model driver (and the replay format).
func (c *Case) Line() string {
	var sb strings.Builder
	switch {
	case c.Simple && !c.Zlib:
		m := "0"
		if c.Multi {
			m = "1"
		}
		fmt.Fprintf(&sb, "g %s %s %s", c.Srcs[0].fields(), m, opsString(c.Ops, true))
		return sb.String()
	case c.Simple && c.Zlib:
		d := "nil"
		if c.Dict0 > 0 {
			d = hexs(c.Dicts[c.Dict0-1])
			if d == "" {
				d = "e"
			}
		}
		fmt.Fprintf(&sb, "z %s %s %s", d, c.Srcs[0].fields(), opsString(c.Ops, true))
		return sb.String()
	case c.Zlib:
		fmt.Fprintf(&sb, "Z %s %d %s %s", dictsString(c.Dicts), c.Dict0, c.Srcs[0].fields(), opsString(c.Ops, false))
	default:
		ops := opsString(c.Ops, false)
		ops = strings.ReplaceAll(strings.ReplaceAll(ops, "R0", "R"), "N0", "N")
		fmt.Fprintf(&sb, "G %s %s", c.Srcs[0].fields(), ops)
	}
	for _, s := range c.Srcs[1:] {
		sb.WriteByte(' ')
		sb.WriteString(s.fields())
	}
	return sb.String()
}

// chunkSrc is the io.Reader under the bufio.Reader: one chunk (or the part that fits) per Read.
type chunkSrc struct {
	chunks    [][]byte
	term      error
	delivered int
}

func (s *chunkSrc) Read(p []byte) (int, error) {
	if len(s.chunks) == 0 {
		return 0, s.term
	}
	c := s.chunks[0]
	n := copy(p, c)
	if n == len(c) {
		s.chunks = s.chunks[1:]
	} else {
		s.chunks[0] = c[n:]
	}
	s.delivered += n
	return n, nil
}

func splitChunks(stream []byte, sizes []int) [][]byte {
	var out [][]byte
	rest := stream
	for _, k := range sizes {
		if k > len(rest) {
			k = len(rest)
		}
		out = append(out, rest[:k])
		rest = rest[k:]
	}
	if len(rest) > 0 {
		out = append(out, rest)
	}
	return out
}

func kindOf(err error) string {
	var ce flate.CorruptInputError
	switch {
	case err == nil:
		return "ok"
	case err == io.EOF:
		return "eof"
	case err == io.ErrUnexpectedEOF:
		return "ueof"
	case err == gzip.ErrHeader:
		return "gzhdr"
	case err == gzip.ErrChecksum:
		return "gzsum"
	case err == zlib.ErrHeader:
		return "zlhdr"
	case err == zlib.ErrChecksum:
		return "zlsum"
	case err == zlib.ErrDictionary:
		return "zldict"
	case errors.As(err, &ce):
		return fmt.Sprintf("corrupt@%d", int64(ce))
	case err == errSrc:
		return "src"
	case err == io.ErrNoProgress:
		return "noprogress"
	case err == bufio.ErrBufferFull:
		return "bufferfull"
	}
	return "other:" + strings.ReplaceAll(err.Error(), " ", "_")
}

func hexOrDash(b []byte) string {
	if len(b) == 0 {
		return "-"
	}
	return hexs(b)
}

func hdrString(h gzip.Header) string {
	mt := int64(0)
	if !h.ModTime.IsZero() {
		mt = h.ModTime.Unix()
	}
	ex := "nil"
	if h.Extra != nil {
		ex = hexOrDash(h.Extra)
	}
	return fmt.Sprintf("%d:%d:%s:%s:%s", mt, h.OS, ex, hexOrDash([]byte(h.Name)), hexOrDash([]byte(h.Comment)))
}

// liveSrc is a source in use.
type liveSrc struct {
	src *chunkSrc
	br  *bufio.Reader // nil when the Reader wrapped the raw source itself
}

func openSource(s *Source) *liveSrc {
	src := &chunkSrc{chunks: splitChunks(append([]byte(nil), s.Stream...), s.Chunks), term: io.EOF}
	if s.TermErr {
		src.term = errSrc
	}
	if s.Raw {
		return &liveSrc{src: src}
	}
	return &liveSrc{src: src, br: bufio.NewReaderSize(src, s.BufSize)}
}

func (l *liveSrc) reader() io.Reader {
	if l.br != nil {
		return l.br
	}
	return l.src
}

// consumed: -1 = cannot be measured (the bufio.Reader is inside the Reader)
func (l *liveSrc) consumed() int {
	if l.br == nil {
		return -1
	}
	return l.src.delivered - l.br.Buffered()
}

type runResult struct {
	items    []string // observations in the driver's answer syntax
	consumed int
	panicMsg string
	out      []byte // bytes of the Reads up to the first error after the last (re)start
	firstErr string // that error ("" = none yet)
	sawEOF   bool
}

// runReal drives the real object.  The Read counts of c.Ops are trimmed to the calls made.
func runReal(c *Case) (res runResult) {
	cur := openSource(&c.Srcs[0])
	nextSrc := 1
	var gz *gzip.Reader
	var zr io.ReadCloser
	var ops []Op
	failed := false // an error has been returned since the last successful (re)start
	note := func(kind string) {
		if kind == "eof" {
			res.sawEOF = true
		}
		if kind != "ok" && res.firstErr == "" {
			res.firstErr = kind
		}
	}
	defer func() {
		c.Ops = ops
		res.consumed = cur.consumed()
	}()
	guard := func(f func()) bool {
		ok := true
		func() {
			defer func() {
				if x := recover(); x != nil {
					ok = false
					res.panicMsg = fmt.Sprint(x)
				}
			}()
			f()
		}()
		return ok
	}
	// the initial NewReader / Reset
	var err error
	if c.Zlib {
		if !guard(func() { zr, err = zlib.NewReaderDict(cur.reader(), c.dict(c.Dict0)) }) {
			res.items = append(res.items, "reset:panic")
			return
		}
		res.items = append(res.items, "reset:"+kindOf(err))
		if err != nil {
			return // no object
		}
	} else if c.Simple {
		if !guard(func() { gz, err = gzip.NewReader(cur.reader()) }) {
			res.items = append(res.items, "reset:panic")
			return
		}
		if err != nil {
			res.items = append(res.items, "reset:"+kindOf(err))
			return
		}
		res.items = append(res.items, "reset:ok:"+hdrString(gz.Header))
		gz.Multistream(c.Multi)
	} else {
		gz = new(gzip.Reader)
		if !guard(func() { err = gz.Reset(cur.reader()) }) {
			res.items = append(res.items, "reset:panic")
			return
		}
		res.items = append(res.items, "reset:"+kindOf(err)+":"+hdrString(gz.Header))
		failed = err != nil
		if failed {
			note(kindOf(err))
		}
	}
	for _, o := range c.Ops {
		switch o.Kind {
		case 'r':
			buf := make([]byte, o.Size)
			made := 0
			extra := c.Extra
			for i := 0; i < o.Count; i++ {
				if failed && o.Count >= unbounded {
					if extra == 0 {
						break
					}
					extra--
				}
				var n int
				var err error
				made++
				if !guard(func() {
					if c.Zlib {
						n, err = zr.Read(buf)
					} else {
						n, err = gz.Read(buf)
					}
				}) {
					ops = append(ops, Op{Kind: 'r', Size: o.Size, Count: made})
					res.items = append(res.items, "read:panic:-")
					return
				}
				k := kindOf(err)
				res.items = append(res.items, "read:"+k+":"+hexOrDash(buf[:n]))
				if !failed {
					res.out = append(res.out, buf[:n]...)
				}
				if err != nil {
					failed = true
					note(k)
				}
			}
			ops = append(ops, Op{Kind: 'r', Size: o.Size, Count: made})
		case 'R', 'W', 'N':
			if o.Kind == 'N' {
				if nextSrc >= len(c.Srcs) {
					continue
				}
				res.items = append(res.items, fmt.Sprintf("src:%d", cur.consumed()))
				cur = openSource(&c.Srcs[nextSrc])
				nextSrc++
			}
			if o.Kind == 'R' && cur.br == nil {
				o.Kind = 'W' // the bufio.Reader is inside the Reader: Reset(src) makes a new one
			}
			if o.Kind == 'W' {
				cur = &liveSrc{src: cur.src}
			}
			ops = append(ops, o)
			var err error
			if !guard(func() {
				if c.Zlib {
					err = zr.(zlib.Resetter).Reset(cur.reader(), c.dict(o.Dict))
				} else {
					err = gz.Reset(cur.reader())
				}
			}) {
				res.items = append(res.items, "reset:panic")
				return
			}
			if c.Zlib {
				res.items = append(res.items, "reset:"+kindOf(err))
			} else {
				res.items = append(res.items, "reset:"+kindOf(err)+":"+hdrString(gz.Header))
			}
			failed = err != nil
			res.out, res.firstErr, res.sawEOF = nil, "", false
			if failed {
				note(kindOf(err))
			}
		case 'M':
			ops = append(ops, o)
			gz.Multistream(o.Flag)
		case 'C':
			ops = append(ops, o)
			var err error
			if !guard(func() {
				if c.Zlib {
					err = zr.Close()
				} else {
					err = gz.Close()
				}
			}) {
				res.items = append(res.items, "close:panic")
				return
			}
			res.items = append(res.items, "close:"+kindOf(err))
		}
	}
	return
}

func (c *Case) dict(k int) []byte {
	if k == 0 {
		return nil
	}
	d := c.Dicts[k-1]
	if d == nil {
		d = []byte{}
	}
	return d
}

// normalise makes the model's answer comparable: a failed NewReader has no Header; the offset of
// a corrupt error is not compared in the dictionary branch.
func splitAnswer(line string) (consumed int, items []string, err error) {
	toks := strings.Fields(line)
	if len(toks) == 0 || toks[0] == "ERR" {
		return 0, nil, fmt.Errorf("model driver: %q", line)
	}
	consumed, err = strconv.Atoi(toks[0])
	return consumed, toks[1:], err
}

func itemParts(it string) (op, kind, rest string) {
	p := strings.SplitN(it, ":", 3)
	op = p[0]
	if len(p) > 1 {
		kind = p[1]
	}
	if len(p) > 2 {
		rest = p[2]
	}
	return
}

func stripOff(kind string) string {
	if i := strings.IndexByte(kind, '@'); i >= 0 {
		return kind[:i]
	}
	return kind
}

// usesDict: some stream of the case is decoded by the standard library's inflater
func (c *Case) usesDict() bool {
	if !c.Zlib {
		return false
	}
	for _, s := range c.Srcs {
		if len(s.Stream) >= 2 && s.Stream[1]&0x20 != 0 {
			return true
		}
	}
	return false
}

func concatReads(items []string) []byte {
	var out []byte
	for _, it := range items {
		op, _, rest := itemParts(it)
		if op == "read" && rest != "-" && rest != "" {
			out = append(out, unhex(rest)...)
		}
	}
	return out
}

// compare returns "" when the two runs agree.
func compare(c *Case, real runResult, mitems []string, mc int) string {
	if real.panicMsg != "" {
		// the real object panicked: the model must say panic at the same place
		n := len(real.items)
		if len(mitems) >= n {
			_, k, _ := itemParts(mitems[n-1])
			if k == "panic" {
				return ""
			}
		}
		return "the real Reader panicked: " + real.panicMsg
	}
	if c.Loose {
		a, b := concatReads(real.items), concatReads(mitems)
		if len(a) > len(b) {
			a, b = b, a
		}
		if !bytes.HasPrefix(b, a) {
			return "loose comparison: outputs are not prefix-compatible"
		}
		return ""
	}
	dict := c.usesDict()
	if dict && (real.firstErr == "ueof" || real.firstErr == "src") {
		// G5: on a truncated stream the standard library's inflater may hold back the last few
		// bytes that the reference inflater delivers; kinds are compared, bytes up to that slack
		a, b := concatReads(real.items), concatReads(mitems)
		if !bytes.HasPrefix(b, a) || len(b)-len(a) > 300 {
			return fmt.Sprintf("dictionary branch, truncated: real output (%d bytes) is not a close prefix of the model's (%d bytes)", len(a), len(b))
		}
		if len(real.items) != len(mitems) {
			return fmt.Sprintf("number of observations: real=%d model=%d", len(real.items), len(mitems))
		}
		for i := range real.items {
			ro, rk, _ := itemParts(real.items[i])
			mo, mk, _ := itemParts(mitems[i])
			if ro != mo || (ro != "src" && stripOff(rk) != stripOff(mk) && !(len(a) < len(b) && ro == "read")) {
				return fmt.Sprintf("item %d: real %s:%s, model %s:%s", i, ro, rk, mo, mk)
			}
		}
		if real.consumed >= 0 && real.consumed != mc {
			return fmt.Sprintf("consumed source bytes: real=%d model=%d", real.consumed, mc)
		}
		return ""
	}
	n := len(real.items)
	if len(mitems) < n {
		n = len(mitems)
	}
	for i := 0; i < n; i++ {
		ro, rk, rr := itemParts(real.items[i])
		mo, mk, mr := itemParts(mitems[i])
		if ro != mo {
			return fmt.Sprintf("item %d: real %s, model %s", i, real.items[i], mitems[i])
		}
		if ro == "src" {
			if rk != mk && rk != "-1" && !dict {
				return fmt.Sprintf("item %d: consumed when leaving the source: real=%s model=%s", i, rk, mk)
			}
			continue
		}
		if dict || c.Simple {
			rk, mk = stripOff(rk), stripOff(mk)
		}
		if rk != mk {
			return fmt.Sprintf("item %d (%s): kind real=%s model=%s", i, ro, rk, mk)
		}
		if ro == "reset" && c.Simple && rk != "ok" {
			continue // no object, no Header
		}
		if rr != mr {
			if ro == "read" {
				a, b := []byte(nil), []byte(nil)
				if rr != "-" {
					a = unhex(rr)
				}
				if mr != "-" {
					b = unhex(mr)
				}
				k := 0
				for k < len(a) && k < len(b) && a[k] == b[k] {
					k++
				}
				return fmt.Sprintf("item %d (read, %s): bytes differ at %d (real n=%d, model n=%d)", i, rk, k, len(a), len(b))
			}
			return fmt.Sprintf("item %d (%s %s): real %s, model %s", i, ro, rk, rr, mr)
		}
	}
	if len(real.items) != len(mitems) {
		return fmt.Sprintf("number of observations: real=%d model=%d", len(real.items), len(mitems))
	}
	if real.consumed >= 0 && real.consumed != mc {
		if dict && (real.firstErr == "" || strings.HasPrefix(real.firstErr, "corrupt")) {
			return "" // G5: lazy consumption / corrupt offset are not modelled in the dictionary branch
		}
		return fmt.Sprintf("consumed source bytes: real=%d model=%d", real.consumed, mc)
	}
	return ""
}

// oracles: checks on the real run alone.
func oracle(c *Case, real runResult) string {
	if real.panicMsg != "" {
		if n := len(real.items); n > 0 && real.items[n-1] == "close:panic" && !c.Zlib && !c.Simple && !strings.HasPrefix(real.items[0], "reset:ok") {
			// Close on a Reader that never had a decompressor (new(Reader) + failed Reset): nil
			// dereference, as in the standard library
			return ""
		}
		return "panic: " + real.panicMsg
	}
	if real.firstErr == "noprogress" {
		return "" // 100 empty source reads in a row: bufio gives up, by design
	}
	if c.wantHdr != "" && len(real.items) > 0 {
		if op, k, rest := itemParts(real.items[0]); op == "reset" && k == "ok" && rest != c.wantHdr {
			return "Header misread: got " + rest + " want " + c.wantHdr
		}
	}
	if c.WantPayload != nil || c.WantEOF {
		if real.firstErr != "" && real.firstErr != "eof" {
			return "valid container: error " + real.firstErr
		}
		if real.firstErr == "eof" && !bytes.Equal(real.out, c.WantPayload) {
			return fmt.Sprintf("valid container: wrong payload (%d bytes, want %d)", len(real.out), len(c.WantPayload))
		}
		if real.firstErr == "" && !bytes.HasPrefix(c.WantPayload, real.out) {
			return "valid container: wrong payload prefix"
		}
	}
	if c.NoCleanEOF && real.sawEOF {
		return "clean io.EOF on a truncated container / failing source"
	}
	if c.ExactUse > 0 && real.consumed >= 0 && real.firstErr == "eof" && real.consumed != c.ExactUse {
		return fmt.Sprintf("consumed %d source bytes, the container has %d", real.consumed, c.ExactUse)
	}
	return ""
}

// gzipAcceptOracle: a single-member gzip stream that is read to a clean EOF must carry the CRC-32
// and length of what was delivered in its last 8 bytes (whatever was done to it).
func gzipAcceptOracle(c *Case, real runResult) string {
	if c.Zlib {
		// zlib: the 4 bytes before the point reached are the Adler-32 of what was delivered
		if len(c.Srcs) != 1 || real.firstErr != "eof" || real.consumed < 4 || real.consumed > len(c.Srcs[0].Stream) {
			return ""
		}
		for _, o := range c.Ops {
			if o.Kind != 'r' {
				return ""
			}
		}
		t := c.Srcs[0].Stream[real.consumed-4 : real.consumed]
		if uint32(t[0])<<24|uint32(t[1])<<16|uint32(t[2])<<8|uint32(t[3]) != adler32.Checksum(real.out) {
			return "clean EOF but the trailer does not match the delivered bytes"
		}
		return ""
	}
	if len(c.Srcs) != 1 || real.firstErr != "eof" || real.consumed < 8 {
		return ""
	}
	for _, o := range c.Ops {
		if o.Kind != 'r' && o.Kind != 'M' {
			return ""
		}
	}
	s := c.Srcs[0].Stream
	if real.consumed > len(s) {
		return "consumed more than the source holds"
	}
	multi := c.Multi
	if !c.Simple {
		multi = true
		for _, o := range c.Ops {
			if o.Kind == 'M' {
				multi = o.Flag
			}
		}
	}
	if multi {
		return "" // several members: the last trailer covers the last member only
	}
	t := s[real.consumed-8 : real.consumed]
	crc := uint32(t[0]) | uint32(t[1])<<8 | uint32(t[2])<<16 | uint32(t[3])<<24
	sz := uint32(t[4]) | uint32(t[5])<<8 | uint32(t[6])<<16 | uint32(t[7])<<24
	if crc != crc32.ChecksumIEEE(real.out) || sz != uint32(len(real.out)) {
		return "clean EOF but the trailer does not match the delivered bytes"
	}
	return ""
}

type modelProc struct {
	cmd *exec.Cmd
	in  *bufio.Writer
	out *bufio.Reader
}

func startModel(path string) (*modelProc, error) {
	// the reference inflater of the dictionary branch recurses deeply on large inputs
	cmd := exec.Command("/bin/sh", "-c", "ulimit -s unlimited 2>/dev/null || ulimit -s 4000000 2>/dev/null; exec "+path)
	stdin, err := cmd.StdinPipe()
	if err != nil {
		return nil, err
	}
	stdout, err := cmd.StdoutPipe()
	if err != nil {
		return nil, err
	}
	cmd.Stderr = os.Stderr
	if err := cmd.Start(); err != nil {
		return nil, err
	}
	return &modelProc{cmd: cmd, in: bufio.NewWriterSize(stdin, 1<<20), out: bufio.NewReaderSize(stdout, 1<<20)}, nil
}

func (m *modelProc) ask(line string) (string, error) {
	if _, err := m.in.WriteString(line + "\n"); err != nil {
		return "", err
	}
	if err := m.in.Flush(); err != nil {
		return "", err
	}
	s, err := m.out.ReadString('\n')
	return strings.TrimRight(s, "\n"), err
}

func summarize(items []string, consumed int) string {
	tot, reads := 0, 0
	last := "-"
	for _, it := range items {
		op, k, rest := itemParts(it)
		if op == "read" {
			reads++
			if rest != "-" {
				tot += len(rest) / 2
			}
		}
		if op != "src" {
			last = op + ":" + k
		}
	}
	return fmt.Sprintf("%d observations, %d reads, %d bytes, last=%s, consumed=%d", len(items), reads, tot, last, consumed)
}

func main() {
	n := flag.Int("n", 3000, "number of cases")
	seed := flag.Uint64("seed", 1, "seed")
	driver := flag.String("driver", "/verif/driver/gz/gz_driver", "model driver")
	workers := flag.Int("workers", 8, "parallel model processes")
	replay := flag.String("replay", "", "file with case lines to replay instead of generating")
	only := flag.String("only", "", "generate only this family")
	dump := flag.String("dump", "", "write the generated case lines to this file")
	verbose := flag.Bool("v", false, "print every case")
	maxShow := flag.Int("show", 5, "mismatches to print in full")
	oraclesOnly := flag.Bool("oracles-only", false, "run the real code at whatever acceleration level is in effect and check the model-independent oracles only (no model comparison)")
	flag.Parse()

	if lv := archLevel(); lv != 0 && !*oraclesOnly {
		fmt.Printf("gz-correspondence: acceleration level is %d, need 0 (build with -tags verif and set FASTGO_VERIF_ARCHLEVEL=0)\n", lv)
		os.Exit(2)
	}

	var cases []*Case
	if *replay != "" {
		cs, err := loadCases(*replay)
		if err != nil {
			fmt.Println(err)
			os.Exit(2)
		}
		cases = cs
	} else {
		cases = generate(*n, *seed, *only)
	}

	type outcome struct {
		diff, real, model, kind, oracle, line string
		dur                                  time.Duration
	}
	outs := make([]outcome, len(cases))
	var wg sync.WaitGroup
	next := make(chan int, len(cases))
	for i := range cases {
		next <- i
	}
	close(next)
	for w := 0; w < *workers; w++ {
		wg.Add(1)
		go func() {
			defer wg.Done()
			mp, err := startModel(*driver)
			if err != nil {
				fmt.Println("cannot start model driver:", err)
				os.Exit(2)
			}
			for i := range next {
				c := cases[i]
				real := runReal(c)
				line := c.Line()
				if *oraclesOnly {
					or := oracle(c, real)
					if or == "" {
						or = gzipAcceptOracle(c, real)
					}
					k := real.firstErr
					if k == "" {
						k = "none"
					}
					outs[i] = outcome{real: summarize(real.items, real.consumed), kind: stripOff(k), oracle: or, line: line}
					continue
				}
				t0 := time.Now()
				ans, err := mp.ask(line)
				dur := time.Since(t0)
				if err != nil {
					outs[i] = outcome{diff: "model driver died: " + err.Error(), line: line}
					mp, _ = startModel(*driver)
					continue
				}
				mc, mitems, err := splitAnswer(ans)
				if err != nil {
					outs[i] = outcome{diff: err.Error(), line: line}
					continue
				}
				or := oracle(c, real)
				if or == "" {
					or = gzipAcceptOracle(c, real)
				}
				k := real.firstErr
				if k == "" {
					k = "none"
				}
				outs[i] = outcome{diff: compare(c, real, mitems, mc), real: summarize(real.items, real.consumed),
					model: summarize(mitems, mc), kind: stripOff(k), oracle: or, dur: dur, line: line}
			}
			mp.in.Flush()
			mp.cmd.Process.Kill()
		}()
	}
	wg.Wait()

	if *dump != "" {
		f, _ := os.Create(*dump)
		w := bufio.NewWriter(f)
		for i, c := range cases {
			fmt.Fprintf(w, "# %s\n%s\n", c.Name, outs[i].line)
		}
		w.Flush()
		f.Close()
	}

	os.Remove("mismatches.txt") // stale results of an earlier run
	os.Remove("oracle-violations.txt")
	mism, viol := 0, 0
	kinds := map[string]int{}
	fams := map[string]int{}
	var mf, of *os.File
	for i, c := range cases {
		o := outs[i]
		kinds[o.kind]++
		fam := c.Name
		if k := strings.IndexByte(fam, '/'); k >= 0 {
			fam = fam[:k]
		}
		fams[fam]++
		if *verbose {
			fmt.Printf("case %d %s: %s\n", i, c.Name, o.real)
		}
		if o.oracle != "" {
			viol++
			if of == nil {
				of, _ = os.Create("oracle-violations.txt")
			}
			fmt.Fprintf(of, "# case %d %s: %s\n%s\n", i, c.Name, o.oracle, o.line)
			if viol <= *maxShow {
				line := o.line
				if len(line) > 400 {
					line = line[:400] + "...(see oracle-violations.txt)"
				}
				fmt.Printf("ORACLE case %d (%s): %s\n  real : %s\n  case : %s\n", i, c.Name, o.oracle, o.real, line)
			}
		}
		if o.diff != "" {
			mism++
			if mf == nil {
				mf, _ = os.Create("mismatches.txt")
			}
			fmt.Fprintf(mf, "# case %d %s: %s\n%s\n", i, c.Name, o.diff, o.line)
			if mism <= *maxShow {
				line := o.line
				if len(line) > 600 {
					line = line[:600] + "...(see mismatches.txt)"
				}
				fmt.Printf("MISMATCH case %d (%s): %s\n  real : %s\n  model: %s\n  case : %s\n", i, c.Name, o.diff, o.real, o.model, line)
			}
		}
	}
	if mf != nil {
		mf.Close()
	}
	if of != nil {
		of.Close()
	}
	idx := make([]int, len(cases))
	for i := range idx {
		idx[i] = i
	}
	sort.Slice(idx, func(a, b int) bool { return outs[idx[a]].dur > outs[idx[b]].dur })
	var tot time.Duration
	for _, o := range outs {
		tot += o.dur
	}
	fmt.Printf("model time: total %.1fs; slowest:", tot.Seconds())
	for k := 0; k < 3 && k < len(idx); k++ {
		i := idx[k]
		fmt.Printf(" [case %d %s: %.1fs]", i, cases[i].Name, outs[i].dur.Seconds())
	}
	fmt.Println()
	var fk []string
	for k, v := range fams {
		fk = append(fk, fmt.Sprintf("%s:%d", k, v))
	}
	sort.Strings(fk)
	fmt.Printf("families: %s\n", strings.Join(fk, " "))
	fmt.Printf("first error kinds (real): %v\n", kinds)
	fmt.Printf("gz-oracles: %d violations on the real code (model independent; see oracle-violations.txt)\n", viol)
	fmt.Printf("gz-correspondence: %d cases, %d mismatches\n", len(cases), mism)
	if mism != 0 {
		os.Exit(1)
	}
}

// ---------------------------------------------------------------- replay

func parseReps(s string, prefix bool) []Op {
	if s == "-" || s == "" {
		return nil
	}
	var out []Op
	for _, it := range strings.Split(s, ",") {
		if prefix {
			it = it[1:]
		}
		ab := strings.Split(it, "x")
		a, _ := strconv.Atoi(ab[0])
		b := 1
		if len(ab) == 2 {
			b, _ = strconv.Atoi(ab[1])
		}
		out = append(out, Op{Kind: 'r', Size: a, Count: b})
	}
	return out
}

func parseSource(t []string) Source {
	var s Source
	if t[0] != "-" {
		s.Stream = unhex(t[0])
	}
	s.BufSize, _ = strconv.Atoi(t[1])
	for _, r := range parseReps(t[2], false) {
		for i := 0; i < r.Count; i++ {
			s.Chunks = append(s.Chunks, r.Size)
		}
	}
	s.TermErr = t[3] == "err"
	return s
}

func parseOps(s string) []Op {
	if s == "-" {
		return nil
	}
	var out []Op
	for _, it := range strings.Split(s, ",") {
		switch it[0] {
		case 'r':
			out = append(out, parseReps(it, true)...)
		case 'R', 'N':
			d := 0
			if len(it) > 1 {
				d, _ = strconv.Atoi(it[1:])
			}
			out = append(out, Op{Kind: it[0], Dict: d})
		case 'W', 'C':
			out = append(out, Op{Kind: it[0]})
		case 'M':
			out = append(out, Op{Kind: 'M', Flag: it == "M1"})
		}
	}
	return out
}

func loadCases(path string) ([]*Case, error) {
	f, err := os.Open(path)
	if err != nil {
		return nil, err
	}
	defer f.Close()
	var out []*Case
	sc := bufio.NewScanner(f)
	sc.Buffer(make([]byte, 1<<20), 1<<28)
	ln := 0
	for sc.Scan() {
		ln++
		line := strings.TrimSpace(sc.Text())
		if line == "" || line[0] == '#' {
			continue
		}
		t := strings.Fields(line)
		c := &Case{Name: fmt.Sprintf("replay/%d", ln), Extra: 1 << 30}
		bad := fmt.Errorf("%s:%d: malformed case line", path, ln)
		switch t[0] {
		case "g":
			if len(t) != 7 {
				return nil, bad
			}
			c.Simple, c.Multi = true, t[5] == "1"
			c.Srcs = []Source{parseSource(t[1:5])}
			c.Ops = parseReps(t[6], false)
		case "z":
			if len(t) != 7 {
				return nil, bad
			}
			c.Simple, c.Zlib = true, true
			if t[1] != "nil" {
				d := []byte{}
				if t[1] != "e" {
					d = unhex(t[1])
				}
				c.Dicts, c.Dict0 = [][]byte{d}, 1
			}
			c.Srcs = []Source{parseSource(t[2:6])}
			c.Ops = parseReps(t[6], false)
		case "G":
			if len(t) < 6 || (len(t)-6)%4 != 0 {
				return nil, bad
			}
			c.Srcs = []Source{parseSource(t[1:5])}
			c.Ops = parseOps(t[5])
			for k := 6; k < len(t); k += 4 {
				c.Srcs = append(c.Srcs, parseSource(t[k:k+4]))
			}
		case "Z":
			if len(t) < 8 || (len(t)-8)%4 != 0 {
				return nil, bad
			}
			c.Zlib = true
			if t[1] != "-" {
				for _, d := range strings.Split(t[1], "/") {
					if d == "e" {
						c.Dicts = append(c.Dicts, []byte{})
					} else {
						c.Dicts = append(c.Dicts, unhex(d))
					}
				}
			}
			c.Dict0, _ = strconv.Atoi(t[2])
			c.Srcs = []Source{parseSource(t[3:7])}
			c.Ops = parseOps(t[7])
			for k := 8; k < len(t); k += 4 {
				c.Srcs = append(c.Srcs, parseSource(t[k:k+4]))
			}
		default:
			return nil, bad
		}
		out = append(out, c)
	}
	return out, sc.Err()
}
