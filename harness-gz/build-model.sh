#!/bin/sh
# Compiles the Coq model of the gzip/zlib readers (only what is out of date; Engine.vo is shared
# with the proof files and is NOT rebuilt here), extracts it and builds the OCaml driver
# (/verif/driver/gz/gz_driver).
set -e
cd /verif/coq
comp() { # comp file.v dep.vo...
  v=$1; vo=${1%.v}.vo; shift
  need=0
  [ -f "$vo" ] || need=1
  [ "$need" = 1 ] || [ "$v" -nt "$vo" ] && need=1
  for d in "$@"; do [ "$d" -nt "$vo" ] && need=1; done
  if [ "$need" = 1 ]; then timeout 900 coqc -Q . Verif "$v"; fi
}
comp RModel/GzEngine.v RModel/Engine.vo RModel/EngineReset.vo RModel/Containers.vo
mkdir -p /verif/driver/gz
cd /verif/driver/gz
if [ ! -f gz_driver ] || [ /verif/coq/RModel/GzEngine.vo -nt gz_driver ] || [ ../gz_main.ml -nt gz_driver ]; then
  timeout 900 coqc -Q ../../coq Verif ../../coq/RModel/GzExtract.v > extract.log 2>&1 || { cat extract.log; exit 1; }
  cp ../gz_main.ml gz_main.ml
  timeout 1200 ocamlfind ocamlopt -O3 -w -a gzengine.mli gzengine.ml gz_main.ml -o gz_driver > ocaml.log 2>&1 || { cat ocaml.log; exit 1; }
fi
