//go:build verif

package main

import "github.com/intel/fastgo/compress/flate"

func archLevel() int { return flate.VerifArchLevel() }
