module gzharness

go 1.21

require github.com/intel/fastgo v0.0.0

replace github.com/intel/fastgo => /repo
