package main

import (
	"bytes"
	stdflate "compress/flate"
	stdgzip "compress/gzip"
	stdzlib "compress/zlib"
	"encoding/binary"
	"fmt"
	"hash/adler32"
	"hash/crc32"
	"io"
	"time"

	"github.com/intel/fastgo/compress/flate"
	"github.com/intel/fastgo/compress/gzip"
	"github.com/intel/fastgo/compress/zlib"
)

var bufSizes = []int{16, 17, 32, 64, 512, 4096, 65536}
var readSizes = []int{1, 7, 100, 4096, 100000}
var allLevels = []int{-2, -1, 0, 1, 2, 3, 4, 5, 6, 7, 8, 9}

// ---------------------------------------------------------------- producers

func stdDeflate(data []byte, level int) []byte {
	var b bytes.Buffer
	w, _ := stdflate.NewWriter(&b, level)
	w.Write(data)
	w.Close()
	return b.Bytes()
}

func fastDeflate(data []byte, level int) []byte {
	var b bytes.Buffer
	w, _ := flate.NewWriter(&b, level)
	w.Write(data)
	w.Close()
	return b.Bytes()
}

func stdDeflateDict(data []byte, level int, dict []byte) []byte {
	var b bytes.Buffer
	w, _ := stdflate.NewWriterDict(&b, level, dict)
	w.Write(data)
	w.Close()
	return b.Bytes()
}

type hdrSpec struct {
	Text, HCRC, HasExtra, HasName, HasComment bool
	Reserved                                 byte // flag bits 5..7
	Extra, Name, Comment                     []byte // raw Latin-1 bytes, no NUL
	MTime                                    uint32
	XFL, OS                                  byte
	BadHCRC                                  bool
	NoNUL                                    bool // leave the terminator of the last string out
}

func (h *hdrSpec) bytes() []byte {
	flg := h.Reserved & 0xe0
	if h.Text {
		flg |= 1
	}
	if h.HCRC {
		flg |= 2
	}
	if h.HasExtra {
		flg |= 4
	}
	if h.HasName {
		flg |= 8
	}
	if h.HasComment {
		flg |= 16
	}
	b := []byte{0x1f, 0x8b, 8, flg, 0, 0, 0, 0, h.XFL, h.OS}
	binary.LittleEndian.PutUint32(b[4:], h.MTime)
	if h.HasExtra {
		b = append(b, byte(len(h.Extra)), byte(len(h.Extra)>>8))
		b = append(b, h.Extra...)
	}
	if h.HasName {
		b = append(b, h.Name...)
		if !(h.NoNUL && !h.HasComment) {
			b = append(b, 0)
		}
	}
	if h.HasComment {
		b = append(b, h.Comment...)
		if !h.NoNUL {
			b = append(b, 0)
		}
	}
	if h.HCRC {
		c := uint16(crc32.ChecksumIEEE(b))
		if h.BadHCRC {
			c ^= 1 << (h.MTime % 16)
		}
		b = append(b, byte(c), byte(c>>8))
	}
	return b
}

func latin1UTF8(b []byte) []byte {
	var out []byte
	for _, v := range b {
		if v < 0x80 {
			out = append(out, v)
		} else {
			out = append(out, 0xc0|v>>6, 0x80|v&0x3f)
		}
	}
	return out
}

// want: the Header a correct reader reports, in the observation syntax
func (h *hdrSpec) want() string {
	ex := "nil"
	if h.HasExtra {
		ex = hexOrDash(h.Extra)
	}
	var nm, cm []byte
	if h.HasName {
		nm = latin1UTF8(h.Name)
	}
	if h.HasComment {
		cm = latin1UTF8(h.Comment)
	}
	return fmt.Sprintf("%d:%d:%s:%s:%s", h.MTime, h.OS, ex, hexOrDash(nm), hexOrDash(cm))
}

func gzTrailer(payload []byte) []byte {
	t := make([]byte, 8)
	binary.LittleEndian.PutUint32(t, crc32.ChecksumIEEE(payload))
	binary.LittleEndian.PutUint32(t[4:], uint32(len(payload)))
	return t
}

func handGzip(h *hdrSpec, body, payload []byte) []byte {
	out := append([]byte(nil), h.bytes()...)
	out = append(out, body...)
	return append(out, gzTrailer(payload)...)
}

func randString(r *Rng, n int, latin bool) []byte {
	b := make([]byte, n)
	for i := range b {
		if latin && r.Intn(3) == 0 {
			b[i] = byte(r.Range(0x80, 0xff))
		} else {
			b[i] = byte(r.Range(0x20, 0x7e))
		}
	}
	return b
}

func randHdr(r *Rng) *hdrSpec {
	h := &hdrSpec{OS: byte(r.Intn(256)), XFL: byte(r.Pick([]int{0, 2, 4, 255}))}
	if r.Intn(3) > 0 {
		h.MTime = uint32(r.U64())
		if r.Intn(4) == 0 {
			h.MTime = uint32(r.Pick([]int{1, 0x7fffffff, 0x80000000, 0xffffffff}))
		}
	}
	h.Text = r.Intn(4) == 0
	h.HCRC = r.Intn(2) == 0
	h.HasExtra = r.Intn(2) == 0
	h.HasName = r.Intn(2) == 0
	h.HasComment = r.Intn(2) == 0
	if r.Intn(6) == 0 {
		h.Reserved = byte(r.Intn(8)) << 5
	}
	if h.HasExtra {
		n := r.Pick([]int{0, 0, 1, 2, 5, 15, 16, 17, 100, 511, 512, 513, 4095, 4096, 4097})
		if r.Intn(40) == 0 {
			n = r.Pick([]int{65535, 65534, 40000})
		}
		h.Extra = r.Bytes(n)
	}
	strlen := func() int {
		if r.Intn(4) == 0 {
			return r.Pick([]int{0, 1, 509, 510, 511})
		}
		return r.Range(0, 40)
	}
	if h.HasName {
		h.Name = randString(r, strlen(), r.Intn(2) == 0)
	}
	if h.HasComment {
		h.Comment = randString(r, strlen(), r.Intn(2) == 0)
	}
	return h
}

func fastGzip(data []byte, level int, h *hdrSpec) []byte {
	var b bytes.Buffer
	w, _ := gzip.NewWriterLevel(&b, level)
	if h != nil {
		w.Name, w.Comment, w.Extra, w.OS = string(latin1UTF8(h.Name)), string(latin1UTF8(h.Comment)), h.Extra, h.OS
		if h.MTime != 0 {
			w.ModTime = time.Unix(int64(h.MTime), 0)
		}
	}
	w.Write(data)
	w.Close()
	return b.Bytes()
}

func stdGzip(data []byte, level int) []byte {
	var b bytes.Buffer
	w, _ := stdgzip.NewWriterLevel(&b, level)
	w.Write(data)
	w.Close()
	return b.Bytes()
}

func fastZlib(data []byte, level int, dict []byte) []byte {
	var b bytes.Buffer
	w, _ := zlib.NewWriterLevelDict(&b, level, dict)
	w.Write(data)
	w.Close()
	return b.Bytes()
}

func stdZlib(data []byte, level int, dict []byte) []byte {
	var b bytes.Buffer
	w, _ := stdzlib.NewWriterLevelDict(&b, level, dict)
	w.Write(data)
	w.Close()
	return b.Bytes()
}

// handZlib: CMF/FLG by hand
func handZlib(cmf byte, flevel int, dict []byte, useDict bool, body, payload []byte) []byte {
	flg := byte(flevel << 6)
	if useDict {
		flg |= 0x20
	}
	flg += byte(31-(uint16(cmf)<<8|uint16(flg))%31) % 31
	out := []byte{cmf, flg}
	if useDict {
		out = binary.BigEndian.AppendUint32(out, adler32.Checksum(dict))
	}
	out = append(out, body...)
	return binary.BigEndian.AppendUint32(out, adler32.Checksum(payload))
}

// stdAccepts: the standard library's reader decodes st to data (generators self-check: the
// standard library's deflater mishandles some dictionary inputs)
func stdAccepts(st []byte, zl bool, dict, data []byte) bool {
	var rd io.Reader
	var err error
	if zl {
		rd, err = stdzlib.NewReaderDict(bytes.NewReader(st), dict)
	} else {
		rd, err = stdgzip.NewReader(bytes.NewReader(st))
	}
	if err != nil {
		return false
	}
	out, err := io.ReadAll(rd)
	return err == nil && bytes.Equal(out, data)
}

// ---------------------------------------------------------------- data and schedules

func dataFor(r *Rng, class int) []byte {
	var n int
	switch class {
	case 0:
		n = r.Range(0, 300)
	case 1:
		n = r.Range(300, 20000)
	default:
		n = r.Range(66000, 140000)
	}
	kind := dataKinds[r.Intn(len(dataKinds))]
	return DataSpec{Gen: kind, Seed: r.U64(), N: n}.Generate()
}

func sizeClass(r *Rng) int {
	x := r.Intn(100)
	switch {
	case x < 62:
		return 0
	case x < 96:
		return 1
	}
	return 2
}

func smallData(r *Rng) []byte {
	kind := dataKinds[r.Intn(len(dataKinds))]
	return DataSpec{Gen: kind, Seed: r.U64(), N: r.Range(0, 60)}.Generate()
}

// schedule picks the delivery schedule, bufio size and terminal of a source.
func schedule(r *Rng, s *Source, empties bool) {
	n := len(s.Stream)
	s.BufSize = bufSizes[r.Intn(len(bufSizes))]
	if r.Intn(8) == 0 {
		s.BufSize = r.Range(16, 70000)
	}
	if r.Intn(6) == 0 {
		s.Raw = true
		s.BufSize = 4096
	}
	s.TermErr = r.Intn(5) == 0
	s.Chunks = nil
	mode := r.Intn(10)
	if n > 30000 && mode >= 3 && mode <= 4 {
		mode = 5
	}
	if mode == 8 && !empties {
		mode = 7
	}
	switch {
	case mode < 3: // all at once
	case mode < 5: // one byte at a time
		s.Chunks = make([]int, n)
		for i := range s.Chunks {
			s.Chunks[i] = 1
		}
	case mode < 8: // random sizes
		max := []int{2, 5, 20, 300, 5000, 70000}[r.Intn(6)]
		for left := n; left > 0; {
			k := r.Range(1, max)
			if k > left {
				k = left
			}
			s.Chunks = append(s.Chunks, k)
			left -= k
		}
	case mode < 9: // random sizes with empty deliveries in between
		for left := n; left > 0; {
			if r.Intn(4) == 0 {
				z := r.Range(1, 3)
				if r.Intn(40) == 0 {
					z = r.Range(99, 101) // around bufio's 100 empty reads
				}
				for i := 0; i < z; i++ {
					s.Chunks = append(s.Chunks, 0)
				}
			}
			k := r.Range(1, 64)
			if k > left {
				k = left
			}
			s.Chunks = append(s.Chunks, k)
			left -= k
		}
		if r.Intn(3) == 0 {
			s.Chunks = append(s.Chunks, 0)
		}
	default: // multiples of the bufio size, and one off
		for left := n; left > 0; {
			k := s.BufSize*r.Range(1, 3) + r.Range(-1, 1)
			if k > left {
				k = left
			}
			s.Chunks = append(s.Chunks, k)
			left -= k
		}
	}
}

func readOps(r *Rng) []Op {
	var ops []Op
	switch r.Intn(7) {
	case 0, 1, 2, 3, 4:
		ops = []Op{{Kind: 'r', Size: readSizes[r.Intn(len(readSizes))], Count: unbounded}}
	case 5: // a few odd reads first
		for i := r.Range(1, 6); i > 0; i-- {
			ops = append(ops, Op{Kind: 'r', Size: r.Pick([]int{0, 1, 2, 3, 7, 100, 257, 258, 259, 4096, 32768, 65535, 65536, 65537}), Count: r.Range(1, 3)})
		}
		ops = append(ops, Op{Kind: 'r', Size: readSizes[r.Intn(len(readSizes))], Count: unbounded})
	default:
		ops = []Op{{Kind: 'r', Size: r.Range(1, 70000), Count: unbounded}}
	}
	return ops
}

// someGzip returns a valid single gzip member of data and a description.
func someGzip(r *Rng, data []byte) ([]byte, string) {
	lv := allLevels[r.Intn(len(allLevels))]
	switch r.Intn(4) {
	case 0:
		return stdGzip(data, lv), fmt.Sprintf("std%d", lv)
	case 1:
		h := randHdr(r)
		h.BadHCRC = false
		var body []byte
		if r.Bool() {
			body = fastDeflate(data, lv)
		} else {
			body = stdDeflate(data, lv)
		}
		return handGzip(h, body, data), fmt.Sprintf("hand%d", lv)
	default:
		var h *hdrSpec
		if r.Intn(3) == 0 {
			h = randHdr(r)
			if len(h.Extra) == 0 {
				h.Extra = nil
			}
		}
		return fastGzip(data, lv, h), fmt.Sprintf("fast%d", lv)
	}
}

func someZlib(r *Rng, data []byte, dict []byte) ([]byte, string) {
	lv := allLevels[r.Intn(len(allLevels))]
	if r.Bool() {
		return stdZlib(data, lv, dict), fmt.Sprintf("std%d", lv)
	}
	return fastZlib(data, lv, dict), fmt.Sprintf("fast%d", lv)
}

// dictData: a dictionary and data that refers to it
func dictData(r *Rng, big bool) (dict, data []byte) {
	dl := r.Pick([]int{0, 1, 5, 100, 1000, 4000})
	if r.Intn(8) == 0 {
		dl = r.Pick([]int{32767, 32768, 32769, 40000})
	}
	dict = DataSpec{Gen: r.PickS([]string{"text", "uni4", "rnd", "per7"}), Seed: r.U64(), N: dl}.Generate()
	n := r.Range(0, 400)
	if big {
		n = r.Pick([]int{32768 - dl, 32767 - dl, 32769 - dl, 32768, 65536 - dl, 70000})
		if n < 0 {
			n = 40000
		}
	}
	for len(data) < n {
		if len(dict) > 0 && r.Intn(3) > 0 {
			a := r.Intn(len(dict))
			b := a + r.Range(1, 60)
			if b > len(dict) {
				b = len(dict)
			}
			data = append(data, dict[a:b]...)
		} else {
			data = append(data, r.Bytes(r.Range(1, 20))...)
		}
	}
	if len(data) > n {
		data = data[:n]
	}
	return
}

func mutate(r *Rng, s []byte, lo, hi int) ([]byte, string) {
	out := append([]byte(nil), s...)
	if hi > len(out) {
		hi = len(out)
	}
	if lo >= hi {
		lo, hi = 0, len(out)
	}
	if len(out) == 0 {
		return []byte{byte(r.Intn(256))}, "ins"
	}
	p := r.Range(lo, hi-1)
	switch r.Intn(6) {
	case 0, 1, 2:
		out[p] ^= 1 << r.Intn(8)
		return out, fmt.Sprintf("flip@%d", p)
	case 3:
		out[p] = byte(r.Intn(256))
		return out, fmt.Sprintf("subst@%d", p)
	case 4:
		out = append(out[:p], out[p+1:]...)
		return out, fmt.Sprintf("del@%d", p)
	default:
		out = append(out[:p], append([]byte{byte(r.Intn(256))}, out[p:]...)...)
		return out, fmt.Sprintf("ins@%d", p)
	}
}

// ---------------------------------------------------------------- families

type family struct {
	name   string
	weight int
	gen    func(r *Rng, emit func(*Case))
}

func families() []family {
	return []family{
		{"valid", 14, genValid},
		{"multi", 8, genMulti},
		{"hdr", 10, genHdr},
		{"trunc", 14, genTrunc},
		{"mut", 14, genMut},
		{"sched", 8, genSched},
		{"walk", 8, genWalk},
		{"zdict", 10, genZdict},
		{"reuse", 8, genReuse},
		{"close", 3, genClose},
		{"edge", 3, genEdge},
	}
}

func generate(n int, seed uint64, only string) []*Case {
	var out []*Case
	fams := families()
	tot := 0
	for _, f := range fams {
		if only == "" || only == f.name || (only == "srcerr" && f.name == "trunc") {
			tot += f.weight
		}
	}
	if tot == 0 {
		fmt.Println("unknown family", only)
		return nil
	}
	for fi, f := range fams {
		if !(only == "" || only == f.name || (only == "srcerr" && f.name == "trunc")) {
			continue
		}
		quota := n * f.weight / tot
		if quota == 0 {
			quota = 1
		}
		r := NewRng(seed*1000 + uint64(fi))
		cnt := 0
		for cnt < quota {
			before := cnt
			f.gen(r, func(c *Case) {
				if cnt >= quota {
					return
				}
				if only == "srcerr" && !c.Srcs[0].TermErr {
					return
				}
				if c.Extra == 0 {
					c.Extra = 2
				}
				out = append(out, c)
				cnt++
			})
			if cnt == before && only != "srcerr" {
				break
			}
		}
	}
	return out
}

// valid members written by fastgo and by the standard library at all levels
func genValid(r *Rng, emit func(*Case)) {
	data := dataFor(r, sizeClass(r))
	c := &Case{Simple: true, Ops: readOps(r)}
	var st []byte
	var desc string
	if r.Intn(3) == 0 {
		c.Zlib = true
		st, desc = someZlib(r, data, nil)
		if r.Intn(4) == 0 { // a dictionary the stream does not use
			c.Dicts, c.Dict0 = [][]byte{r.Bytes(r.Range(0, 50))}, 1
		}
	} else {
		st, desc = someGzip(r, data)
		c.Multi = r.Bool()
	}
	c.Srcs = []Source{{Stream: st}}
	schedule(r, &c.Srcs[0], true)
	c.Name = "valid/" + desc
	if c.Srcs[0].TermErr && c.Multi && !c.Zlib {
		c.NoCleanEOF = true
	} else {
		c.WantPayload, c.WantEOF = append([]byte{}, data...), true
		c.ExactUse = len(st)
	}
	if r.Intn(3) == 0 {
		c.Simple = false
		if !c.Zlib && !c.Multi {
			c.Ops = append([]Op{{Kind: 'M', Flag: false}}, c.Ops...)
		}
	}
	emit(c)
}

// multi-member files
func genMulti(r *Rng, emit func(*Case)) {
	k := r.Range(1, 5)
	var st, all, first []byte
	firstLen := 0
	for i := 0; i < k; i++ {
		var d []byte
		switch r.Intn(4) {
		case 0:
			d = nil
		case 1:
			d = dataFor(r, 1)
		default:
			d = smallData(r)
		}
		m, _ := someGzip(r, d)
		st = append(st, m...)
		all = append(all, d...)
		if i == 0 {
			first, firstLen = append([]byte{}, d...), len(m)
		}
	}
	tail := ""
	garbage := 0
	switch r.Intn(6) {
	case 0:
		garbage = r.Range(1, 20)
		st = append(st, r.Bytes(garbage)...)
		tail = "+garbage"
	case 1:
		garbage = r.Range(1, 9)
		st = append(st, []byte{0x1f, 0x8b, 8, 0, 0, 0, 0, 0, 0}[:garbage]...)
		tail = "+parthdr"
	case 2:
		garbage = r.Range(1, 12)
		st = append(st, make([]byte, garbage)...)
		tail = "+zeros"
	}
	c := &Case{Simple: r.Bool(), Multi: r.Intn(3) > 0, Ops: readOps(r), Srcs: []Source{{Stream: st}}}
	schedule(r, &c.Srcs[0], true)
	c.Name = fmt.Sprintf("multi/%d%s", k, tail)
	if !c.Multi {
		c.WantPayload, c.WantEOF, c.ExactUse = first, true, firstLen
		if !c.Simple {
			c.Ops = append([]Op{{Kind: 'M', Flag: false}}, c.Ops...)
		}
	} else if garbage == 0 && !c.Srcs[0].TermErr {
		c.WantPayload, c.WantEOF, c.ExactUse = all, true, len(st)
	} else {
		c.NoCleanEOF = true
	}
	emit(c)
}

// hand-built headers with every optional field
func genHdr(r *Rng, emit func(*Case)) {
	h := randHdr(r)
	mode := r.Intn(12)
	switch mode {
	case 0:
		h.HCRC, h.BadHCRC = true, true
	case 1: // a string that does not fit z.buf
		h.HasName = true
		h.Name = randString(r, r.Pick([]int{512, 513, 600, 2000}), r.Bool())
	case 2:
		h.HasComment = true
		h.Comment = randString(r, r.Pick([]int{512, 513, 600}), r.Bool())
	case 3:
		h.HasExtra, h.Extra = true, nil // XLEN = 0
	case 4:
		h.HasName, h.NoNUL = true, true
	}
	data := smallData(r)
	st := handGzip(h, stdDeflate(data, r.Pick([]int{0, 1, 6, -2})), data)
	if mode == 5 { // wrong magic / method
		p := r.Intn(3)
		st[p] ^= byte(1 << r.Intn(8))
	}
	c := &Case{Simple: r.Intn(3) == 0, Multi: r.Bool(), Ops: readOps(r), Srcs: []Source{{Stream: st}}}
	if !c.Simple && !c.Multi {
		c.Ops = append([]Op{{Kind: 'M', Flag: false}}, c.Ops...)
	}
	if !c.Simple && r.Intn(4) == 0 {
		c.Ops = append(c.Ops, Op{Kind: 'C'})
	}
	schedule(r, &c.Srcs[0], true)
	c.Name = fmt.Sprintf("hdr/%d", mode)
	if mode > 5 || mode == 3 {
		c.wantHdr = h.want()
		if !(c.Srcs[0].TermErr && c.Multi) {
			c.WantPayload, c.WantEOF = append([]byte{}, data...), true
		}
	}
	emit(c)
}

// smallContainer: a container of a few dozen bytes, its kind, the offsets where members end
func smallContainer(r *Rng) (st []byte, zl bool, dict []byte, bounds []int, desc string) {
	data := DataSpec{Gen: r.PickS([]string{"text", "uni2", "run", "rnd"}), Seed: r.U64(), N: r.Range(0, 24)}.Generate()
	switch r.Intn(6) {
	case 0:
		st = stdZlib(data, r.Pick([]int{0, 1, 6, -2}), nil)
		return st, true, nil, nil, "zlib"
	case 1:
		dict = []byte("the quick brown fox")
		data = append([]byte("quick fox "), data...)
		st = stdZlib(data, 6, dict)
		return st, true, dict, nil, "zlibdict"
	case 2:
		h := randHdr(r)
		h.BadHCRC = false
		if len(h.Extra) > 20 {
			h.Extra = h.Extra[:r.Range(0, 20)]
		}
		if len(h.Name) > 20 {
			h.Name = h.Name[:r.Range(0, 20)]
		}
		if len(h.Comment) > 20 {
			h.Comment = h.Comment[:r.Range(0, 20)]
		}
		st = handGzip(h, stdDeflate(data, r.Pick([]int{0, 1, -2})), data)
		return st, false, nil, []int{len(st)}, "gzhdr"
	case 3:
		a := fastGzip(data, 1, nil)
		b := stdGzip(smallData(r), 6)
		st = append(append([]byte{}, a...), b...)
		return st, false, nil, []int{len(a), len(st)}, "gz2"
	default:
		st = fastGzip(data, r.Pick([]int{0, 1, 2, -2}), nil)
		return st, false, nil, []int{len(st)}, "gz"
	}
}

// every-byte truncation of small containers, with EOF and with a source error at the cut
func genTrunc(r *Rng, emit func(*Case)) {
	st, zl, dict, bounds, desc := smallContainer(r)
	bs := bufSizes[r.Intn(len(bufSizes))]
	mode := r.Intn(3)
	multi := r.Intn(4) > 0
	simple := r.Bool()
	raw := r.Intn(8) == 0
	rd := r.Pick([]int{1, 3, 100, 4096})
	for cut := 0; cut < len(st); cut++ {
		for _, te := range []bool{false, true} {
			c := &Case{Zlib: zl, Simple: simple, Multi: multi, Srcs: []Source{{Stream: st[:cut], BufSize: bs, TermErr: te, Raw: raw}}}
			if dict != nil {
				c.Dicts, c.Dict0 = [][]byte{dict}, 1
			}
			if !zl && !simple && !multi {
				c.Ops = []Op{{Kind: 'M', Flag: false}}
			}
			c.Ops = append(c.Ops, Op{Kind: 'r', Size: rd, Count: unbounded})
			switch mode {
			case 1:
				c.Srcs[0].Chunks = make([]int, cut)
				for i := range c.Srcs[0].Chunks {
					c.Srcs[0].Chunks[i] = 1
				}
			case 2:
				for left := cut; left > 0; {
					k := r.Range(1, 7)
					if k > left {
						k = left
					}
					c.Srcs[0].Chunks = append(c.Srcs[0].Chunks, k)
					left -= k
				}
			}
			fam := "trunc"
			if te {
				fam = "srcerr"
			}
			c.Name = fmt.Sprintf("%s/%s@%d", fam, desc, cut)
			atBound := false
			for _, b := range bounds {
				if cut == b {
					atBound = true
				}
			}
			if cut == 0 && te {
				c.NoCleanEOF = true // an empty source that fails is not an empty file
			}
			if cut > 0 || zl {
				// a complete first member read with Multistream(false) ends in EOF whatever follows
				firstDone := !zl && !multi && len(bounds) > 0 && cut >= bounds[0]
				if !(atBound && multi && !te) && !firstDone {
					c.NoCleanEOF = true
				}
			}
			emit(c)
		}
	}
}

// bit flips / byte substitutions / insertions / deletions in header, body, trailer
func genMut(r *Rng, emit func(*Case)) {
	cls := 0
	if r.Intn(4) == 0 {
		cls = 1
	}
	data := dataFor(r, cls)
	var st []byte
	var desc string
	c := &Case{}
	hlen, tlen := 10, 8
	switch r.Intn(5) {
	case 0, 1:
		h := randHdr(r)
		h.BadHCRC = false
		if len(h.Extra) > 600 {
			h.Extra = h.Extra[:600]
		}
		hlen = len(h.bytes())
		st = handGzip(h, stdDeflate(data, r.Pick([]int{0, 1, 6, 9, -2})), data)
		desc = "gzhand"
	case 2:
		st, desc = someGzip(r, data)
		if r.Bool() { // second member
			m, _ := someGzip(r, smallData(r))
			st = append(append([]byte{}, st...), m...)
		}
		desc = "gz" + desc
	case 3:
		c.Zlib = true
		hlen, tlen = 2, 4
		st, desc = someZlib(r, data, nil)
		desc = "zl" + desc
	default:
		c.Zlib = true
		hlen, tlen = 6, 4
		dict, d := dictData(r, false)
		st, desc = someZlib(r, d, dict)
		desc = "zd" + desc
		c.Dicts, c.Dict0 = [][]byte{dict}, 1
		c.Loose = true
	}
	where := r.Intn(4)
	var m string
	switch where {
	case 0:
		st, m = mutate(r, st, 0, hlen)
	case 1:
		st, m = mutate(r, st, len(st)-tlen, len(st))
		c.Loose = false
	case 2:
		st, m = mutate(r, st, hlen, len(st)-tlen)
	default:
		st, m = mutate(r, st, 0, len(st))
	}
	if c.Zlib && c.Dict0 == 1 && where != 1 {
		c.Loose = true
	}
	c.Srcs = []Source{{Stream: st}}
	schedule(r, &c.Srcs[0], !c.Zlib || c.Dict0 == 0)
	c.Simple = r.Intn(3) == 0
	c.Multi = true
	c.Ops = readOps(r)
	if !c.Zlib && r.Intn(3) == 0 {
		c.Multi = false
		if !c.Simple {
			c.Ops = append([]Op{{Kind: 'M', Flag: false}}, c.Ops...)
		}
	}
	c.Name = fmt.Sprintf("mut/%s/%s", desc, m)
	emit(c)
}

// chunked sources against bufio sizes, systematically
func genSched(r *Rng, emit func(*Case)) {
	data := dataFor(r, r.Pick([]int{0, 1, 1}))
	var st []byte
	zl := r.Intn(3) == 0
	if zl {
		st, _ = someZlib(r, data, nil)
	} else {
		st, _ = someGzip(r, data)
		if r.Bool() {
			d2 := smallData(r)
			m, _ := someGzip(r, d2)
			st = append(append([]byte{}, st...), m...)
			data = append(append([]byte{}, data...), d2...)
		}
	}
	rd := r.Pick(readSizes)
	for _, bs := range []int{16, 17, 31, 64, 512, 4096, 65536} {
		for mode := 0; mode < 4; mode++ {
			c := &Case{Zlib: zl, Simple: true, Multi: true, Srcs: []Source{{Stream: st, BufSize: bs}},
				Ops: []Op{{Kind: 'r', Size: rd, Count: unbounded}}}
			s := &c.Srcs[0]
			switch mode {
			case 1:
				if len(st) > 3000 {
					continue
				}
				s.Chunks = make([]int, len(st))
				for i := range s.Chunks {
					s.Chunks[i] = 1
				}
			case 2:
				for left := len(st); left > 0; {
					k := r.Range(1, 2*bs)
					if k > left {
						k = left
					}
					s.Chunks = append(s.Chunks, k)
					left -= k
				}
			case 3:
				if bs != 4096 {
					continue
				}
				s.Raw = true
			}
			c.Name = fmt.Sprintf("sched/%d/%d", bs, mode)
			c.WantPayload, c.WantEOF, c.ExactUse = append([]byte{}, data...), true, len(st)
			emit(c)
		}
	}
}

// Multistream(false) + Reset member-by-member walks
func genWalk(r *Rng, emit func(*Case)) {
	k := r.Range(1, 5)
	var st []byte
	var lens []int
	for i := 0; i < k; i++ {
		var d []byte
		if r.Intn(4) == 0 {
			d = dataFor(r, 1)
		} else {
			d = smallData(r)
		}
		m, _ := someGzip(r, d)
		st = append(st, m...)
		lens = append(lens, len(m))
	}
	variant := r.Intn(8)
	switch variant {
	case 0:
		st = append(st, r.Bytes(r.Range(1, 30))...)
	case 1:
		st = st[:len(st)-r.Range(1, 12)]
	}
	c := &Case{Srcs: []Source{{Stream: st}}}
	schedule(r, &c.Srcs[0], true)
	c.Srcs[0].Raw = false
	if variant == 2 {
		c.Srcs[0].BufSize = r.Pick([]int{16, 17, 32, 100, 1000, 4095}) // below bufio's default size
	}
	rd := r.Pick([]int{1, 7, 100, 4096, 100000})
	c.Ops = []Op{{Kind: 'M', Flag: false}}
	for i := 0; i < k+1; i++ {
		if variant == 3 && r.Intn(3) == 0 { // leave a member early
			c.Ops = append(c.Ops, Op{Kind: 'r', Size: r.Range(0, 10), Count: r.Range(0, 2)})
		} else {
			c.Ops = append(c.Ops, Op{Kind: 'r', Size: rd, Count: unbounded})
		}
		if variant == 4 && r.Intn(3) == 0 {
			c.Ops = append(c.Ops, Op{Kind: 'W'})
		} else {
			c.Ops = append(c.Ops, Op{Kind: 'R'})
		}
		if !(variant == 5 && r.Intn(3) == 0) {
			c.Ops = append(c.Ops, Op{Kind: 'M', Flag: false})
		}
	}
	c.Ops = append(c.Ops, Op{Kind: 'r', Size: rd, Count: unbounded})
	c.Name = fmt.Sprintf("walk/%d/v%d", k, variant)
	if variant == 2 || variant > 5 {
		if !c.Srcs[0].TermErr {
			c.ExactUse = len(st)
		}
	}
	emit(c)
}

// zlib with dictionaries
func genZdict(r *Rng, emit func(*Case)) {
	big := r.Intn(40) == 0
	dict, data := dictData(r, big)
	st, desc := someZlib(r, data, dict)
	c := &Case{Zlib: true, Simple: r.Bool(), Dicts: [][]byte{dict}, Dict0: 1}
	variant := r.Intn(10)
	switch variant {
	case 0: // wrong dictionary
		c.Dicts = [][]byte{append(append([]byte{}, dict...), 1)}
	case 1: // no dictionary given
		c.Dict0 = 0
	case 2: // stored / fixed body written by hand, FDICT set, distances into the dictionary
		body := stdDeflateDict(data, r.Pick([]int{1, 6, 9}), dict)
		st = handZlib(byte(0x08|r.Intn(8)<<4), r.Intn(4), dict, true, body, data)
		desc = "hand"
	case 3: // truncated
		if len(st) > 0 {
			st = st[:r.Intn(len(st))]
		}
	}
	c.Srcs = []Source{{Stream: st}}
	schedule(r, &c.Srcs[0], false)
	c.Ops = readOps(r)
	c.Name = fmt.Sprintf("zdict/%s/v%d", desc, variant)
	if (variant > 3 || variant == 2) && stdAccepts(st, true, dict, data) {
		c.WantPayload, c.WantEOF, c.ExactUse = append([]byte{}, data...), true, len(st)
	}
	if variant == 3 {
		c.NoCleanEOF = true
	}
	emit(c)
}

// Reader reuse: Reset onto new sources, and onto the same bufio.Reader
func genReuse(r *Rng, emit func(*Case)) {
	k := r.Range(2, 4)
	c := &Case{Zlib: r.Intn(3) == 0}
	if c.Zlib {
		nd := r.Range(1, 2)
		for i := 0; i < nd; i++ {
			c.Dicts = append(c.Dicts, DataSpec{Gen: "text", Seed: r.U64(), N: r.Range(0, 300)}.Generate())
		}
	}
	same := r.Intn(3) == 0 // several containers in one source, Reset(br) after each
	var joined []byte
	stdUsed := false // the reader has switched to the standard library's inflater (G5): no damage
	for i := 0; i < k; i++ {
		data := smallData(r)
		if r.Intn(5) == 0 {
			data = dataFor(r, 1)
		}
		var st []byte
		di := 0
		if c.Zlib {
			if r.Bool() {
				di = r.Range(1, len(c.Dicts))
				for len(data) < 40 && len(c.Dicts[di-1]) > 0 {
					data = append(data, c.Dicts[di-1][:min(20, len(c.Dicts[di-1]))]...)
				}
				st, _ = someZlib(r, data, c.Dicts[di-1])
			} else {
				st, _ = someZlib(r, data, nil)
				if r.Intn(3) == 0 {
					di = r.Range(1, len(c.Dicts)) // a dictionary the stream does not use
				}
			}
		} else {
			st, _ = someGzip(r, data)
		}
		dmg := r.Intn(6)
		full := true
		if c.Zlib && len(st) >= 2 && st[1]&0x20 != 0 {
			stdUsed = true
		}
		if !same && !stdUsed {
			switch dmg {
			case 0:
				if !c.Zlib || di == 0 { // G5: the dictionary branch is not compared byte for byte when damaged
					st = st[:r.Intn(len(st))]
				}
			case 1:
				if !c.Zlib || di == 0 {
					st, _ = mutate(r, st, 0, len(st))
				}
			}
		}
		if !same && r.Intn(4) == 0 && !stdUsed {
			full = false
		}
		if i == 0 {
			c.Dict0 = di
		} else if same {
			c.Ops = append(c.Ops, Op{Kind: 'R', Dict: di})
		} else {
			c.Ops = append(c.Ops, Op{Kind: 'N', Dict: di})
		}
		if !c.Zlib && (same || r.Intn(3) == 0) {
			c.Ops = append(c.Ops, Op{Kind: 'M', Flag: false})
		}
		if full {
			c.Ops = append(c.Ops, Op{Kind: 'r', Size: r.Pick(readSizes), Count: unbounded})
		} else {
			c.Ops = append(c.Ops, Op{Kind: 'r', Size: r.Range(0, 20), Count: r.Range(0, 3)})
		}
		if same {
			joined = append(joined, st...)
		} else {
			c.Srcs = append(c.Srcs, Source{Stream: st})
			schedule(r, &c.Srcs[len(c.Srcs)-1], !c.Zlib)
			c.Srcs[len(c.Srcs)-1].Raw = false
		}
	}
	if same {
		c.Srcs = []Source{{Stream: joined}}
		schedule(r, &c.Srcs[0], !c.Zlib)
		c.Srcs[0].Raw = false
		c.Ops = append(c.Ops, Op{Kind: 'R'}, Op{Kind: 'r', Size: 10, Count: 2})
	}
	c.Name = fmt.Sprintf("reuse/%d", k)
	if c.Zlib {
		c.Name += "/zlib"
	}
	if same {
		c.Name += "/same"
	}
	emit(c)
}

// Close in various places
func genClose(r *Rng, emit func(*Case)) {
	data := smallData(r)
	c := &Case{Zlib: r.Bool()}
	var st []byte
	if c.Zlib {
		st, _ = someZlib(r, data, nil)
	} else {
		st, _ = someGzip(r, data)
	}
	switch r.Intn(4) {
	case 0:
		st = st[:r.Intn(len(st))]
	case 1:
		st, _ = mutate(r, st, 0, len(st))
	case 2:
		st = append(st, r.Bytes(r.Range(1, 10))...)
	}
	c.Srcs = []Source{{Stream: st}}
	schedule(r, &c.Srcs[0], true)
	for i := r.Range(1, 3); i > 0; i-- {
		if r.Bool() {
			c.Ops = append(c.Ops, Op{Kind: 'r', Size: r.Pick([]int{1, 5, 100}), Count: r.Range(1, 3)})
		} else {
			c.Ops = append(c.Ops, Op{Kind: 'r', Size: 100, Count: unbounded})
		}
		c.Ops = append(c.Ops, Op{Kind: 'C'})
	}
	c.Ops = append(c.Ops, Op{Kind: 'r', Size: 100, Count: 3})
	c.Name = "close"
	emit(c)
}

// edge inputs: empty, tiny, zero-length reads, members with empty payload
func genEdge(r *Rng, emit func(*Case)) {
	c := &Case{Zlib: r.Intn(3) == 0, Simple: r.Bool(), Multi: r.Bool()}
	var st []byte
	switch r.Intn(6) {
	case 0:
	case 1:
		st = r.Bytes(r.Range(1, 12))
	case 2:
		if c.Zlib {
			st = []byte{0x78, 0x9c}
		} else {
			st = []byte{0x1f, 0x8b, 8, 0, 0, 0, 0, 0, 0, 0}
		}
	case 3: // many empty members
		for i := r.Range(1, 30); i > 0; i-- {
			if c.Zlib {
				st = append(st, stdZlib(nil, 6, nil)...)
			} else {
				st = append(st, stdGzip(nil, r.Pick([]int{0, 6}))...)
			}
		}
		if r.Bool() && !c.Zlib {
			st = append(st, fastGzip([]byte("x"), 1, nil)...)
		}
	case 4:
		if c.Zlib {
			st = handZlib(byte(r.Intn(256)), r.Intn(4), nil, r.Bool(), stdDeflate([]byte("abc"), 6), []byte("abc"))
		} else {
			st = fastGzip([]byte("abc"), 1, nil)
			st[3] = byte(r.Intn(256)) // any flag byte
		}
	default:
		if c.Zlib {
			st = handZlib(0x78, 2, nil, true, stdDeflate([]byte("abc"), 6), []byte("abc")) // FDICT, dictionary id of the empty dictionary
		} else {
			st = fastGzip(nil, 1, nil)
		}
	}
	c.Srcs = []Source{{Stream: st}}
	schedule(r, &c.Srcs[0], true)
	if r.Bool() {
		c.Ops = []Op{{Kind: 'r', Size: 0, Count: r.Range(1, 4)}}
	}
	c.Ops = append(c.Ops, readOps(r)...)
	if !c.Simple && !c.Zlib && !c.Multi {
		c.Ops = append([]Op{{Kind: 'M', Flag: false}}, c.Ops...)
	}
	c.Name = "edge"
	emit(c)
}
