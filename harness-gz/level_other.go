//go:build !verif

package main

// Without the verif hooks the level cannot be queried; the build must then use -tags noasmtest,
// which compiles the pure-Go decode loop only.
func archLevel() int { return 0 }
